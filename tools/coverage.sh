#!/usr/bin/env bash
# Development aid (not a registered command): which regions of the library does the quick tier of all checks execute?
# Builds the harness with -C instrument-coverage (nightly) into a scratch target directory, runs every check's quick search
# single-threaded at 1/20 of its case counts (VERIF_DEV_SCALE; shared counters make the multi-threaded run useless),
# merges the profiles and prints per-file line coverage of /repo/src plus the functions that were never entered.
# Used to look for *dead regions* of the generators (DESIGN.md section 10.8). Output under /tmp/cov (removed by the caller).
set -u
V="$(cd "$(dirname "$0")/.." && pwd)"
T=/tmp/cov; mkdir -p $T/prof $T/verif
cp -r $V/regressions $V/known_findings.txt $T/verif/
BIN=~/.rustup/toolchains/nightly-x86_64-unknown-linux-gnu/lib/rustlib/x86_64-unknown-linux-gnu/bin
( cd $V/harness && RUSTFLAGS="-C instrument-coverage" CARGO_NET_OFFLINE=true cargo +nightly build --profile verif --bin vcheck --target-dir $T/target ) || exit 2
cd $V/harness
export VERIF_DIR=$T/verif VERIF_WORKERS=1 VERIF_DEV_SCALE=${VERIF_DEV_SCALE:-20}
for id in $(python3 -c "import json;print(' '.join(c['property_id'] for c in json.load(open('$V/MANIFEST.json'))['checks']))"); do
  LLVM_PROFILE_FILE=$T/prof/$id-%p.profraw timeout 1500 $T/target/verif/vcheck run $id --tier quick --seed 1 2>&1 | grep -E "^C[0-9]+ |VIOLATION"
done
$BIN/llvm-profdata merge -sparse $T/prof/*.profraw -o $T/all.profdata
$BIN/llvm-cov report $T/target/verif/vcheck -instr-profile=$T/all.profdata --ignore-filename-regex='(\.cargo|rustc|/verif/)' > $T/report.txt
$BIN/llvm-cov export $T/target/verif/vcheck -instr-profile=$T/all.profdata --ignore-filename-regex='(\.cargo|rustc|/verif/)' -format=lcov > $T/all.lcov
cat $T/report.txt
