#!/usr/bin/env bash
# usage: CHECKS="C01 C03 ..." tools/neutral_eval_par.sh <lanes> [names...]
# Like neutral_eval.sh (every property-neutral change x the quick tier of the listed checks, default all) but in scratch lanes
# under /tmp/nv/<k>/{repo,verif} so that /repo and /verif's build output stay untouched. One line per change.
cd "$(dirname "$0")/.."
V=$PWD
lanes=$1; shift
names=("$@"); [ ${#names[@]} -eq 0 ] && names=($(ls neutral | grep -v '\.'))
ids=${CHECKS:-$(python3 -c "import json;print(' '.join(c['property_id'] for c in json.load(open('MANIFEST.json'))['checks']))")}
mkdir -p /tmp/nv
lane() {
  k=$1; shift
  L=/tmp/nv/$k
  rm -rf $L/verif; git -C /repo worktree remove --force $L/repo 2>/dev/null; rm -rf $L/repo
  mkdir -p $L/verif/harness
  git -C /repo worktree add -q --detach $L/repo HEAD
  cp -r $V/harness/src $V/harness/Cargo.toml $V/harness/Cargo.lock $L/verif/harness/
  cp -r $V/regressions $V/known_findings.txt $L/verif/
  cd $L/verif/harness
  export CARGO_NET_OFFLINE=true VERIF_DIR=$L/verif
  for n in "$@"; do
    git -C $L/repo checkout -q -- .
    if ! git -C $L/repo apply $V/neutral/$n/patch.diff 2>/dev/null; then echo "$n: PATCH DOES NOT APPLY"; continue; fi
    if ! cargo build --profile verif --bin vcheck >$L/build.log 2>&1; then echo "$n: BUILD-FAILED"; continue; fi
    res=""; cnt=0
    for id in $ids; do
      out=$(timeout 1500 ./target/verif/vcheck run $id --tier quick --seed ${VERIF_SEED:-1} 2>&1); rc=$?
      cnt=$((cnt+1))
      if [ $rc -eq 1 ]; then res="$res $id:ALARM($(echo "$out" | grep -v KNOWN-FINDING | grep -m1 -o 'rule=[^ ]*'))"; mkdir -p $V/neutral/$n/alarms; echo "$out" | grep -v "^proptest" | tail -30 > $V/neutral/$n/alarms/$id.txt; elif [ $rc -ne 0 ]; then res="$res $id:rc$rc"; fi
    done
    echo "$n:${res:- silent ($cnt checks)}"
  done
  cd /; git -C /repo worktree remove --force $L/repo; rm -rf $L
}
for k in $(seq 1 $lanes); do
  mine=()
  for i in "${!names[@]}"; do [ $(( i % lanes + 1 )) -eq $k ] && mine+=("${names[$i]}"); done
  [ ${#mine[@]} -gt 0 ] && lane $k "${mine[@]}" &
done
wait
