#!/usr/bin/env bash
# runs every registered check (quick or thorough) and prints one line each
TIER="${1:-quick}"
cd "$(dirname "$0")/.."
rc=0
for id in $(python3 -c "import json;print(' '.join(c['property_id'] for c in json.load(open('MANIFEST.json'))['checks']))"); do
  out=$(./check "$id" "$TIER" 2>&1); r=$?
  echo "$out" | grep -E "^(VIOLATION|KNOWN-FINDING|INCONCLUSIVE|FUZZ-SUMMARY|VARIANT|NOTE|C[0-9]+ )" | cut -c1-220
  [ $r -ne 0 ] && rc=$r
done
exit $rc
