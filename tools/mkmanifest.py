#!/usr/bin/env python3
"""Regenerates /verif/MANIFEST.json from the table below (keeps the manifest valid at all times)."""
import json, os, subprocess, sys

V = os.path.dirname(os.path.dirname(os.path.abspath(__file__)))

# id -> (category, technique, level text, level note, design ref)
CLAIMED = {
 "C01": ("fault_enumeration", "two-endpoint network simulation driven by proptest schedules (workload x delivery interleaving x chunking x transport loss) with a delivery-ledger oracle; systematic single-loss sweep",
         "A Connection<Client> and a Connection<Server> exchange the bytes each requests to send through two FIFO byte queues under generated schedules of publishes (QoS0/1/2, aliases), subscribe/unsubscribe, pings, partial deliveries and up to 3 transport losses cutting both queues at arbitrary bytes with persistent-session resume; every case ends with a loss-free drain. Neither side may report a protocol error about the other, the drain is count-bounded, the ledger demands QoS2 exactly once / QoS1 at least once (exactly once without loss) / QoS0 at most once with original topic and payload, and at quiescence ids, store and Receive Maximum vacancy are restored. A systematic sweep inserts one loss at every op position with every byte cut of both queues for fixed tiny workloads.",
         "The application layer of both ends is the harness (answers as the documentation prescribes when automatic responses are off). Limits are constant across resumes and never smaller than an acknowledgement. Termination is decided by a delivery budget, not a clock.", "DESIGN.md §3 C01"),
 "C02": ("exploration", "property-based round-trip testing (proptest, shrinking) with an independent framer",
         "Random search over abstract packets of all 29 kinds x {u16,u32} ids built through the public builders; checks parse(serialise(p))==p, consumed==body, size()==len, wire Remaining Length, vectored==contiguous, store-packet and v5 PUBLISH rewrite helpers. Sampling, not proof; boundary lengths are generated on purpose.",
         "Trusts the harness' reference framer (refcodec::frame) and the library's derived PartialEq as the notion of 'equal packet'.", "DESIGN.md §3 C02"),
 "C03": ("exploration", "differential property-based testing against an independent reference encoder; exhaustive numeric tables",
         "Library bytes are compared byte-for-byte with an independently written MQTT 3.1.1/5.0 encoder over random abstract packets; reference bytes are parsed by the library and read back through public accessors; all property ids, packet types, fixed-header bytes and reason-code tables are enumerated completely.",
         "Trusts harness/src/refcodec.rs as a faithful transcription of the OASIS text (golden vectors in cargo test; any disagreement on the unchanged tree is investigated first).", "DESIGN.md §3 C03"),
 "C04": ("exploration", "exhaustive short-input enumeration + mutation-based and random property testing of every parser (proptest); libFuzzer target in thorough",
         "Every byte string of length <=2 (thorough <=3) is fed to each of the 102 packet-parser instantiations and 6 sub-parsers (complete enumeration); 300k (thorough 5M) structured mutations of valid reference encodings and 200k (3M) random strings follow. On acceptance the packet must be self-consistent (size, re-parse, UTF-8) and rebuildable through the public builder of the same kind.",
         "'Structural rules the builders enforce' is decided by rebuilding the accepted packet from its accessor values through the public builder; nothing is asserted about error values or trailing bytes. VariableByteInteger::decode_stream alone is allowed to canonicalise.", "DESIGN.md §3 C04"),
 "C05": ("exploration", "stateful property-based testing (proptest op histories with shrinking) of a hostile peer against contract-respecting local calls; libFuzzer target in thorough",
         "Random phase-structured histories (handshake, traffic, close, reconnect; all roles, versions incl. undetermined, options) interleave contract-respecting local calls with valid, boundary-valued, mutated and garbage peer frames under arbitrary chunking. Every call must return (catch_unwind, overflow checks and debug assertions on), every recv call must advance the cursor, event lists stay bounded, every complete frame fed is delivered, reported or answered as a QoS2 duplicate, and after notify_closed a fresh handshake is accepted.",
         "The application model is contract-respecting: ids from acquire/register, an id is released only while the application owns it (or was told to release it on send error), PUBREL only after PUBREC, timers fired only when armed. Frame dispositions are counted per op (lower bound). A wedge inside one library call would hit the watchdog (exit 2).", "DESIGN.md §3 C05"),
 "C06": ("exploration", "model-based stateful property testing against an ordered-store model (proptest histories, shrinking)",
         "Histories of QoS0/1/2 publishes in all statuses (offline publishing on/off), acknowledgements chosen by index (matching, wrong kind, unknown id, duplicate, v5 error codes), erase_stored_publish, closes and reconnects (clean/persistent, session present or not, Session Expiry in CONNECT and CONNACK), both roles and versions, smaller Maximum Packet Size on resume. After every op get_stored_packets() must equal the model list (ids, kinds, DUP, full topic, no alias, payload), stored ids are held, no accepted publish is silently dropped, unmatched acknowledgements are protocol errors that change neither store nor ids, and a resume re-sends exactly the store in order right after CONNACK.",
         "Persistence is derived from CONNECT/CONNACK contents (DESIGN.md appendix D); in-flight exchanges from the event-derived application view. Alias-use publishes are left to C13. Known open finding D23 excluded by construction, reported from its witness.", "DESIGN.md §3 C06"),
 "C07": ("exploration", "model-based stateful property testing against a set model of handled inbound QoS2 ids",
         "Histories of peer PUBLISH(QoS2, small id alphabet, dup) and PUBREL interleaved with local PUBREC(success/error)/PUBCOMP, automatic responses on/off, closes and reconnects (clean or resumed), and publishes that fail validation before a valid retransmission. A PUBLISH whose id is not handled must be notified exactly once, a handled one must be suppressed and answered with PUBREC; get_qos2_publish_handled() must equal the model set after every op.",
         "A PUBLISH that produces an error and is not delivered counts as rejected. Export/restore of the set is exercised by C16.", "DESIGN.md §3 C07"),
 "C08": ("exploration", "model-based stateful property testing: a set model of in-use identifiers fed only by announced events, compared with the real in-use set after every op",
         "Random histories of acquire/register/release (0, 1, interior, max; u16 and u32), id-carrying sends with acquired/registered/never-acquired ids, provoked refusals (status, role, version, alias, Receive Maximum, packet size), peer acknowledgements, closes and reconnects. Every NotifyPacketIdReleased must hit an id that is in use; completions, refusals of exchange-initiating sends and closes must release; after every op the verif-hooks in-use set equals the announced history (only a new session may reset it). One deterministic run fills all 65535 u16 ids.",
         "Exchange ownership and session persistence come from an event-derived application view (scn.rs). A refused PUBREL is not required to release. Peer bytes are not fed between a close request and notify_closed. Known open finding D23 is excluded by construction (counted).", "DESIGN.md §3 C08"),
 "C09": ("exploration", "metamorphic/differential property testing of the stream framer (chunking invariance) with exhaustive 1-/2-cut partitions of short streams",
         "Random streams of valid packets, over-long Remaining Lengths and garbage are cut by random, per-byte and header-targeted partitions; PacketBuilder::feed must agree with an independent reference framer (one result per call, no over-read, resume after a bad length) and a chunk-fed connection must produce the same normalised event trace and final state as a whole-frame-fed one. All 1- and 2-cut partitions of 1000 (thorough 10000) short streams are enumerated.",
         "Trusts refcodec::frame as the reference framer. Runs of consecutive id-release events are compared as multisets (hash-set order). A panic in recv is left to C05.", "DESIGN.md §3 C09"),
 "C10": ("exploration", "differential property testing: reused object vs freshly constructed (or fresh + restored) object under the same second-connection script",
         "A generated first-connection history (negotiated limits, aliases, keep-alive, pending exchanges, armed timers, a partial frame in the framer, role Any as client then server; any close path) is followed by a second-connection script. When the script starts a new session the reused object must produce the same events, op by op, as a fresh object with the same options, and verif_state must be equal after the handshake (the report names the leaking field). When it resumes, the comparison is against a fresh object given the export and the ids the application holds.",
         "An undetermined server is compared with a fresh server of the adopted version (C17). Cases whose second handshake does not complete, or whose first connection ends with exchanges the export cannot carry (B), are skipped and counted.", "DESIGN.md §3 C10"),
 "C11": ("exploration", "exhaustive enumeration of the finite send-gating matrix against an independent MQTT role/version/state table; compile-time Sendable table via an inherent-const probe",
         "All cells {Client,Server,Any} x constructor version {3.1.1,5.0,undetermined} x state {fresh, after close, connecting, connected; Any as client and as server} x persistent x offline x 17 send kinds (PUBLISH per QoS) x both packet versions x 2 content variants are executed (ids acquired beforehand): forbidden => only error events, id released iff the packet initiates an exchange, verif_state unchanged; allowed => RequestSendPacket carries exactly that packet; not-connected QoS>0 PUBLISH/PUBREL with kept session => never transmitted and either refused cleanly or stored. The 87-cell compile-time Sendable<Role> table is evaluated with an inherent-const-over-trait-const probe at concrete types and compared with the same role table; checked_send == send.",
         "Release on refusal is required only for exchange-initiating packets. The matrix is complete for the enumerated dimensions (exhaustive: true); packet contents are two fixed variants per kind.", "DESIGN.md §3 C11"),
 "C12": ("exploration", "model-based stateful property testing against a window model of incomplete exchanges (proptest histories, boundary-biased Receive Maximum)",
         "v5.0 histories with the peer's Receive Maximum mostly in {1,2,3}: QoS1/2 sends up to and beyond the limit, acknowledgements (success and error), erasures, other refusals, closes and resumes with stored PUBLISH/PUBREL and changed limits. A publish is accepted iff fewer than M exchanges of this connection are incomplete; get_receive_maximum_vacancy_for_send() must equal M minus that number after every op of an established connection; inbound publishes beyond the own Receive Maximum must be refused with DISCONNECT 0x93 and never falsely.",
         "Exchanges awaited but not retransmitted at a resume (pending PUBREL, awaited without being stored) may be counted from the resume or from their next packet: both readings accepted (range check). Inbound publishes that were not delivered may or may not occupy the window. Applications never abandon an exchange by releasing its id in this profile.", "DESIGN.md §3 C12"),
 "C13": ("exploration", "model-based stateful property testing against an independent receiver alias table (proptest histories)",
         "v5.0 histories over a small topic/alias alphabet with manual bind/use, auto-map, auto-replace, QoS0/1/2, refusals in between (Receive Maximum mostly 1..3, packet size, not connected), LRU pressure, closes/reconnects, stored packets and regulate_for_store; inbound binds/uses in and out of range. Every PUBLISH requested for sending must resolve, in a receiver table fed only by packets actually sent on this connection, to the topic the application asked for; stored/resent/regulated packets carry the full intended topic and no alias; inbound aliased publishes are delivered with the topic bound on this connection or rejected.",
         "The intended topic of a manual (\"\", a) publish is the application's last accepted bind of a (or the binding it saw in a RequestSendPacket). Publishes are identified by a unique payload tag.", "DESIGN.md §3 C13"),
 "C14": ("exploration", "history invariant (monitor) with boundary-directed limits over proptest-generated histories",
         "v5.0 histories in which the Maximum Packet Size in each direction is placed at size-2..size+3 of a packet the history sends/receives (or in {1..8,20..60,100000,absent}); every RequestSendPacket (direct, automatic response, stored-and-resent, alias-rewritten, timer) must have size() and encoded length <= the limit captured from the peer's CONNECT/CONNACK; oversize stored packets are dropped with release on resume; oversize inbound frames are not delivered and answered with DISCONNECT 0x95.",
         "DISCONNECT 0x95 only required on an established connection and when it fits the peer's own limit.", "DESIGN.md §3 C14"),
 "C15": ("exploration", "history invariant (monitor) against a timer model over proptest-generated histories",
         "Histories with keep-alive {0,1,10,65535}, Server Keep Alive {absent,0,7}, ping-interval override {None,0,3000}, response timeout {0,5000} changed at arbitrary points, all sends/receives, expiries of armed timers only, closes, DISCONNECTs, reconnects; all roles/versions. Checks: cancel only when armed, nothing armed after close/DISCONNECT or by local calls while disconnected, client re-arm with the priority-selected interval after every list that sends, server 1.5 x keep-alive re-arm on every accepted packet and never for 0, PINGREQ/PINGRESP response timer, expiry effects.",
         "'Local call' excludes recv and notify_timer_fired; expiry effects asserted while established and before a close request.", "DESIGN.md §3 C15"),
 "C16": ("fault_enumeration", "crash-point enumeration: every prefix of every generated persistent-session history is exported, restored into a fresh object and resumed; differential against the surviving original",
         "For each generated history and each prefix: export (stored packets, QoS2 handled ids), restore into a fresh object, reconnect with session present, run a suffix (acks for restored ids by index, QoS2 duplicates, new publishes, Receive Maximum). The retransmission must equal the export, restored ids are in use and not registrable, their acknowledgements are accepted with release, pre-crash QoS2 duplicates stay suppressed, and the suffix trace equals that of the original object closed and resumed the same way. Malformed exports (duplicate ids, PUBLISH+PUBREL with one id, other-version entries) must not panic.",
         "The differential is skipped (counted) when the crash point has exchanges the export cannot carry or unused ids held by the application.", "DESIGN.md §3 C16"),
 "C17": ("exploration", "exhaustive enumeration of the receive-gating matrix against an independent table; differential testing of auto-detection (undetermined vs fixed-version server)",
         "All cells role x constructor version x state x 16 type nibbles are fed a valid reference packet of that type (the connected state is prepared so that every acknowledgement is legitimate): kinds the remote side of the role can never send => protocol error, not delivered, state unchanged; legitimate kinds => delivered; CONNECT/CONNACK on an established connection => protocol error with session fields untouched. Auto-detection: 100k generated scripts (incl. hostile frames) run against Server(undetermined) and Server(fixed) must give equal traces; other first packets and protocol levels are rejected and the version stays undetermined.",
         "Non-existent types (0, 15 under v3.1.1) may be reported as protocol error or malformed packet.", "DESIGN.md §3 C17"),
 "C18": ("exploration", "exhaustive table enumeration against the specification's property table plus random property sets (proptest)",
         "The complete table 27 property kinds x 14 locations x occurrences {1,2} x boundary values is enumerated for the builder path and, through independently encoded bytes, for the parser path; 200k (thorough 3M) random multi-property sets follow. Verdicts must equal MQTT 5.0 table 2-4 plus the value rules, and builder must equal parser.",
         "The oracle table is transcribed in harness/src/ap.rs (PROP_TABLE, prop_value_ok). Authentication Data is always accompanied by an Authentication Method (cross-property rule kept out of the cells).", "DESIGN.md §3 C18"),
 "C19": ("exploration", "history invariant (monitor) over proptest-generated connection histories",
         "Every event list returned in random histories (all roles/versions, error, timeout, handshake-failure and hostile-peer paths) is checked: no RequestClose before a RequestSendPacket, every DISCONNECT sent and every failing CONNACK sent is accompanied by a close request, and a keep-alive timeout on an established connection yields one. The shapes of closing lists are reported as a histogram.",
         "'Established' = connected and the library has not already requested the close. One list = one returned Vec<Event> (each recv call separately).", "DESIGN.md §3 C19"),
 "C20": ("exploration", "model-based testing against a set-of-free-integers model: exhaustive small-scope enumeration plus proptest sequences",
         "Every op sequence up to depth 6 (thorough 7) over every range of width <=4 at the low end, at 1 and at the type maximum for u8/u16/u32 is enumerated completely (iterative deepening, Clone-shared prefixes) and compared step by step with a plain set model, including the internal interval representation; random sequences of <=60 ops cover extreme ranges ([0,0],[max,max],[0,max],[1,65535],[1,u32::MAX]).",
         "Out-of-range deallocate is excluded (documented assert). The interval representation is read through the verif-hooks accessor verif_intervals().", "DESIGN.md §3 C20"),
}

ALL = ["C%02d" % i for i in range(1, 21)]
NOT_YET = "not claimed"

def main():
    hooks_commits = subprocess.run(["git", "-C", "/repo", "log", "--format=%h %s"], capture_output=True, text=True).stdout.splitlines()
    hook_c = [l.split()[0] for l in hooks_commits if "verif-hooks" in l]
    checks = []
    for cid in ALL:
        if cid not in CLAIMED:
            continue
        cat, tech, text, note, ref = CLAIMED[cid]
        checks.append({
            "property_id": cid,
            "quick_cmd": f"./check {cid} quick",
            "thorough_cmd": f"./check {cid} thorough",
            "evidence_file": f"/verif/evidence/{cid}.json",
            "replay_cmd_template": "./check --replay {path}",
            "engine": "vharness",
            "level_claimed": {"category": cat, "text": text, "design_ref": ref},
            "level_note": note,
            "technique": tech,
        })
    m = {
        "version": 1,
        "setup_cmd": "cd /verif/harness && CARGO_NET_OFFLINE=true cargo build --profile verif --bin vcheck",
        "hooks": {
            "guard": "cargo feature verif-hooks",
            "enable": "harness/Cargo.toml depends on mqtt-protocol-core = { path = \"../../repo\", features = [\"verif-hooks\"] }",
            "baseline_off_cmd": "cd /repo && cargo test --workspace --no-fail-fast --offline",
            "source_commits": hook_c,
            "add_only": True,
        },
        "engines": [{
            "name": "vharness",
            "path": "/verif/harness",
            "serves_properties": sorted(CLAIMED.keys()),
            "kind_free_text": "Rust harness: proptest 1.11 driven programmatically (fixed seeds, fixed work, shrinking), independent reference codec, executable models, exhaustive small-scope enumeration; cargo-fuzz targets for byte-level properties",
        }],
        "checks": checks,
        "notes": "Exit codes: 0 held, 1 VIOLATION, 2 inconclusive. VERIF_SEED selects the PRNG seed (default 1). Known findings: /verif/known_findings.txt.",
        "not_applicable": [{"property_id": c, "reason": NOT_YET} for c in ALL if c not in CLAIMED],
    }
    json.dump(m, open(os.path.join(V, "MANIFEST.json"), "w"), indent=1)
    print("MANIFEST.json:", len(checks), "checks,", len(m["not_applicable"]), "not applicable")

main()
