#!/usr/bin/env python3
"""writes seeded/<name>/meta.json from notes.md, verify.json (tools/seeded_verify.sh) and an evaluation log (tools/seeded_eval.sh)"""
import json, os, re, sys
V = os.path.dirname(os.path.dirname(os.path.abspath(__file__)))
log = sys.argv[1] if len(sys.argv) > 1 else None
results = {}
if log:
    for l in open(log):
        m = re.match(r'(C\d+-\d+): (C\d+):(\w+)(?:\((rule=[^)]*\)?)\))?', l)
        if m:
            results[m.group(1)] = (m.group(3), (m.group(4) or '').replace('rule=', ''))
HISTORY = json.load(open(os.path.join(V, 'seeded', 'history.json')))
for n in sorted(os.listdir(os.path.join(V, 'seeded'))):
    d = os.path.join(V, 'seeded', n)
    if not os.path.isfile(os.path.join(d, 'patch.diff')):
        continue
    notes = open(os.path.join(d, 'notes.md')).read()
    title = notes.splitlines()[0].lstrip('# ').strip()
    need = ''
    lines = notes.splitlines()
    for i, l in enumerate(lines):
        if re.search(r'need(ed|s)? to manifest|what it takes|^- \*\*Trigger|needed to manifest', l, re.I):
            j = i + 1
            need = l
            while j < len(lines) and lines[j].startswith('  '):
                need += ' ' + lines[j].strip(); j += 1
            break
    need = re.sub(r'^[-* ]*(What is )?[Nn]eeded to manifest[^:]*:\s*', '', need).strip()
    ver = json.load(open(os.path.join(d, 'verify.json')))
    prop = n.split('-')[0]
    res = results.get(n, ('unknown', ''))
    meta = {
        "id": n,
        "breaks_property": prop,
        "what": title,
        "needs_to_manifest": need or "(see notes.md)",
        "origin": "written by an independent agent that was given only the text of the property and its own scratch git worktree of /repo (nothing from /verif); never committed to /repo",
        "files": {"change": "patch.diff", "demonstration": "demo.rs (an integration test: copy to tests/seeded_demo.rs)", "author_notes": "notes.md"},
        "confirmed_by_me": {
            "how": "tools/seeded_verify.sh in a scratch worktree /tmp/wt/v<k> of /repo HEAD (removed afterwards): demo on the unchanged tree, `git apply patch.diff`, demo again, then the whole existing suite `cargo test --workspace --no-fail-fast --offline` without the demo file",
            "patch_applies_to_current_tree": ver.get("applies"),
            "demo_on_unchanged_tree_passed_failed": ver.get("demo_unchanged_tree"),
            "demo_with_change_passed_failed": ver.get("demo_with_change"),
            "existing_suite_with_change": ver.get("existing_suite_with_change"),
            "kept": bool(ver.get("ok")),
        },
        "checks": {
            "how": "git -C /repo apply seeded/%s/patch.diff; VERIF_SEED=1 ./check %s quick; git -C /repo checkout -- .   (tools/seeded_eval.sh)" % (n, prop),
            "result": {"CAUGHT": "caught: exit 1 with a VIOLATION line", "missed": "not detected", "unknown": "not evaluated"}.get(res[0], res[0]),
            "first_rule_reported": res[1],
        },
        "history": HISTORY.get(n, "caught by the quick tier as first built"),
    }
    json.dump(meta, open(os.path.join(d, 'meta.json'), 'w'), indent=1)
    print(n, meta["checks"]["result"], res[1])
