#!/usr/bin/env bash
# usage: tools/fuzz_campaign.sh <Cxx> <seed>
# Coverage-guided libFuzzer campaign for one property (oracle inside the target), fixed work: J jobs x N runs,
# each job with its own seed and its own fresh corpus directory (seed corpus written by `vcheck corpus`).
# stdout: "FUZZ-SUMMARY <target> runs=<n> cov=<n> corpus=<n> crashes=<n> jobs=<n>" and, for every crash that
# re-fails in-process through `vcheck replay-fuzz`, "VIOLATION property=<id> replay=<file>".
# exit 0 clean | 1 violation | 2 inconclusive (no fuzz target, build failure, only timeouts/OOMs)
set -u
ID=$1; SEED=${2:-1}
V="$(cd "$(dirname "$0")/.." && pwd)"; H=$V/harness
export CARGO_NET_OFFLINE=true VERIF_DIR=$V
case $ID in
  C04) T=fz_decode; N=${VERIF_FUZZ_RUNS:-1500000}; ML=600;;
  C09) T=fz_chunk;  N=${VERIF_FUZZ_RUNS:-150000};  ML=1500;;
  C05|C06|C07|C08|C12|C13|C14|C15|C19) T=fz_conn; N=${VERIF_FUZZ_RUNS:-150000}; ML=400;;
  *) echo "FUZZ-SUMMARY none"; exit 0;;
esac
J=${VERIF_FUZZ_JOBS:-12}
( cd $H/fuzz && cargo +nightly fuzz build $T >$H/fuzz/build.log 2>&1 ) || { tail -20 $H/fuzz/build.log; echo "INCONCLUSIVE: fuzz target build failed"; exit 2; }
BIN=$H/fuzz/target/x86_64-unknown-linux-gnu/release/$T
[ -x $BIN ] || { echo "INCONCLUSIVE: $BIN missing"; exit 2; }
W=$H/work/fuzz/$ID-$SEED-$$; rm -rf $W; mkdir -p $W/seedcorpus
$H/target/verif/vcheck corpus $T $W/seedcorpus >/dev/null || exit 2
pids=()
for j in $(seq 1 $J); do
  mkdir -p $W/c$j $W/a$j; cp $W/seedcorpus/* $W/c$j/ 2>/dev/null
  ( cd $W && VERIF_FZ_CHECK=$ID timeout --signal=KILL 3000 $BIN $W/c$j -runs=$N -seed=$((SEED*1000+j)) -len_control=0 -max_len=$ML \
      -timeout=60 -rss_limit_mb=4096 -print_final_stats=1 -artifact_prefix=$W/a$j/ >$W/log$j.txt 2>&1 ) &
  pids+=($!)
done
for p in "${pids[@]}"; do wait $p; done
runs=$(grep -h "stat::number_of_executed_units" $W/log*.txt | awk '{s+=$2} END {print s+0}')
cov=$(grep -h -o "cov: [0-9]*" $W/log*.txt | awk '{if($2>m)m=$2} END {print m+0}')
corpus=$(ls $W/c*/ 2>/dev/null | sort -u | wc -l)
crashes=0; viol=0; other=0
mkdir -p $V/replays/$ID
for a in $W/a*/*; do
  [ -f "$a" ] || continue
  case $(basename $a) in
    crash-*)
      crashes=$((crashes+1))
      tgt=$T; [ $T = fz_conn ] && tgt=fz_conn:$ID
      out=$($H/target/verif/vcheck replay-fuzz $tgt $a 2>&1); rc=$?
      if [ $rc -eq 1 ]; then
        h=$(sha1sum $a | cut -c1-16); dst=$V/replays/$ID/fuzz__${tgt/:/@}__$h.bin; cp $a $dst
        echo "$out" | grep -E "^rule=" | head -1
        echo "VIOLATION property=$ID replay=$dst"; viol=$((viol+1))
      else
        # a crash that does not reproduce in-process through the oracle (e.g. a debug assertion only the fuzz profile has)
        h=$(sha1sum $a | cut -c1-16); cp $a $V/replays/$ID/fuzz_unconfirmed__${tgt/:/@}__$h.bin; other=$((other+1))
        echo "NOTE: libFuzzer crash artifact does not re-fail in-process: $(basename $a) (kept as fuzz_unconfirmed)"
      fi;;
    *) other=$((other+1)); echo "NOTE: $(basename $a) (timeout/oom artifact: inconclusive, not a violation)";;
  esac
done
echo "FUZZ-SUMMARY $T runs=$runs cov=$cov corpus=$corpus crashes=$crashes jobs=$J confirmed=$viol"
rm -rf $W
[ $viol -gt 0 ] && exit 1
[ "$runs" = 0 ] && { echo "INCONCLUSIVE: fuzzer executed nothing"; exit 2; }
exit 0
