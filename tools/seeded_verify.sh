#!/usr/bin/env bash
# usage: tools/seeded_verify.sh <slot> <name>...   verifies seeded changes in the scratch worktree /tmp/wt/v<slot>
# (created from /repo HEAD): demo passes on the unchanged tree, fails with the change; the existing suite stays green with it.
slot=$1; shift
W=/tmp/wt/v$slot
[ -d $W ] || git -C /repo worktree add -q --detach $W HEAD
cd $W
# always verify against the current HEAD of /repo
git checkout -q -- . ; rm -f tests/seeded_demo.rs; git checkout -q --detach "$(git -C /repo rev-parse HEAD)"
for n in "$@"; do
  d=/verif/seeded/$n
  git checkout -q -- . ; rm -f tests/seeded_demo.rs
  cp $d/demo.rs tests/seeded_demo.rs
  base=$(CARGO_NET_OFFLINE=true cargo test --offline --test seeded_demo 2>&1 | grep -E "^test result" | tail -1)
  if ! git apply $d/patch.diff 2>/dev/null; then echo "{\"name\":\"$n\",\"applies\":false}" > $d/verify.json; continue; fi
  with=$(CARGO_NET_OFFLINE=true cargo test --offline --test seeded_demo 2>&1 | grep -E "^test result" | tail -1)
  rm -f tests/seeded_demo.rs
  suite=$(CARGO_NET_OFFLINE=true cargo test --workspace --no-fail-fast --offline 2>&1 | grep -E "^test result" | awk '{p+=$4; f+=$6} END {print p" passed "f" failed"}')
  git checkout -q -- .
  python3 - "$n" "$base" "$with" "$suite" > $d/verify.json <<'PY'
import sys,json,re
n,base,withp,suite=sys.argv[1:5]
def pf(s):
    m=re.search(r'(\d+) passed; (\d+) failed',s); return (int(m.group(1)),int(m.group(2))) if m else None
print(json.dumps({"name":n,"applies":True,"demo_unchanged_tree":pf(base),"demo_with_change":pf(withp),"existing_suite_with_change":suite,
 "ok": pf(base) is not None and pf(base)[1]==0 and pf(withp) is not None and pf(withp)[1]>0 and suite.endswith(" 0 failed") and suite.startswith("1479")}))
PY
  echo "$n $(cat $d/verify.json)"
done
