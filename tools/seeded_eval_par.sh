#!/usr/bin/env bash
# usage: tools/seeded_eval_par.sh <lanes> [names...]
# Like seeded_eval.sh but never touches /repo or /verif's build output: each lane gets a scratch worktree of /repo HEAD and a
# copy of the harness sources + regressions + known findings under /tmp/ev/<k>/{repo,verif}; the harness path dependency
# ../../repo resolves to the lane's worktree. Evidence goes to the lane's copy. Prints one line per patch; lanes are removed at the end.
cd "$(dirname "$0")/.."
V=$PWD
lanes=$1; shift
names=("$@"); [ ${#names[@]} -eq 0 ] && names=($(ls seeded | grep -E '^C[0-9]+-[0-9]+$'))
mkdir -p /tmp/ev
lane() {
  k=$1; shift
  L=/tmp/ev/$k
  rm -rf $L/verif; git -C /repo worktree remove --force $L/repo 2>/dev/null; rm -rf $L/repo
  mkdir -p $L/verif/harness
  git -C /repo worktree add -q --detach $L/repo HEAD
  cp -r $V/harness/src $V/harness/Cargo.toml $V/harness/Cargo.lock $L/verif/harness/
  cp -r $V/regressions $V/known_findings.txt $L/verif/
  cd $L/verif/harness
  export CARGO_NET_OFFLINE=true VERIF_DIR=$L/verif
  for n in "$@"; do
    prop=${n%%-*}
    git -C $L/repo checkout -q -- .
    if ! git -C $L/repo apply $V/seeded/$n/patch.diff 2>/dev/null; then echo "$n: PATCH DOES NOT APPLY"; continue; fi
    if ! cargo build --profile verif --bin vcheck >$L/build.log 2>&1; then echo "$n: $prop:BUILD-FAILED"; continue; fi
    out=$(timeout 1500 ./target/verif/vcheck run $prop --tier ${TIER:-quick} --seed ${VERIF_SEED:-1} 2>&1); rc=$?
    rule=$(echo "$out" | grep -v KNOWN-FINDING | grep -m1 -o 'rule=[^ ]*')
    if [ $rc -eq 1 ]; then echo "$n: $prop:CAUGHT($rule)"; elif [ $rc -eq 0 ]; then echo "$n: $prop:missed"; else echo "$n: $prop:rc$rc"; fi
  done
  cd /; git -C /repo worktree remove --force $L/repo; rm -rf $L
}
for k in $(seq 1 $lanes); do
  mine=()
  for i in "${!names[@]}"; do [ $(( i % lanes + 1 )) -eq $k ] && mine+=("${names[$i]}"); done
  [ ${#mine[@]} -gt 0 ] && lane $k "${mine[@]}" &
done
wait
