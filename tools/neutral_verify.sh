#!/usr/bin/env bash
# usage: tools/neutral_verify.sh <slot> <name>...   existing suite with each neutral change, in scratch worktree /tmp/wt/v<slot>
slot=$1; shift
W=/tmp/wt/v$slot
[ -d $W ] || git -C /repo worktree add -q --detach $W HEAD
cd $W
git checkout -q -- . ; rm -f tests/seeded_demo.rs; git checkout -q --detach "$(git -C /repo rev-parse HEAD)"
for n in "$@"; do
  d=/verif/neutral/$n
  git checkout -q -- .
  if ! git apply $d/patch.diff 2>/dev/null; then echo "$n does-not-apply"; continue; fi
  suite=$(CARGO_NET_OFFLINE=true cargo test --workspace --no-fail-fast --offline 2>&1 | grep -E "^test result" | awk '{p+=$4; f+=$6} END {print p" passed "f" failed"}')
  git checkout -q -- .
  echo "$n $suite" | tee $d/suite.txt
done
