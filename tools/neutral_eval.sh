#!/usr/bin/env bash
# usage: tools/neutral_eval.sh [names...]   applies each property-neutral change (neutral/<name>/patch.diff) to /repo, runs the
# quick tier of EVERY check, undoes the change. A check that reports a violation on such a change is a false alarm to analyse.
cd "$(dirname "$0")/.."
names=("$@"); [ ${#names[@]} -eq 0 ] && names=($(ls neutral | grep -v '\.'))
ids=$(python3 -c "import json;print(' '.join(c['property_id'] for c in json.load(open('MANIFEST.json'))['checks']))")
for n in "${names[@]}"; do
  d=neutral/$n; [ -f $d/patch.diff ] || continue
  if ! git -C /repo apply --check "$PWD/$d/patch.diff" 2>/dev/null; then echo "$n: PATCH DOES NOT APPLY"; continue; fi
  git -C /repo apply "$PWD/$d/patch.diff"
  res=""
  for id in $ids; do
    out=$(VERIF_SEED=${VERIF_SEED:-1} ./check $id quick 2>&1); rc=$?
    if [ $rc -eq 1 ]; then res="$res $id:ALARM($(echo "$out" | grep -m1 -o 'rule=[^ ]*'))"; mkdir -p $d/alarms; echo "$out" | tail -30 > $d/alarms/$id.txt; elif [ $rc -ne 0 ]; then res="$res $id:rc$rc"; fi
  done
  git -C /repo checkout -- .
  echo "$n:${res:- silent (20 checks)}"
done
