#!/usr/bin/env bash
# usage: tools/seeded_eval.sh [names...]   applies each seeded patch to /repo, runs the target property's quick check
# (and, with ALL=1, every check), undoes the patch. Prints one line per patch.
cd "$(dirname "$0")/.."
names=("$@"); [ ${#names[@]} -eq 0 ] && names=($(ls seeded))
for n in "${names[@]}"; do
  d=seeded/$n; [ -f $d/patch.diff ] || continue
  prop=${n%%-*}
  if ! git -C /repo apply --check "$PWD/$d/patch.diff" 2>/dev/null; then echo "$n: PATCH DOES NOT APPLY"; continue; fi
  git -C /repo apply "$PWD/$d/patch.diff"
  ids="$prop"; [ -n "${ALL:-}" ] && ids=$(python3 -c "import json;print(' '.join(c['property_id'] for c in json.load(open('MANIFEST.json'))['checks']))")
  res=""
  for id in $ids; do
    out=$(VERIF_SEED=${VERIF_SEED:-1} ./check $id ${TIER:-quick} 2>&1); rc=$?
    rule=$(echo "$out" | grep -v KNOWN-FINDING | grep -m1 -o 'rule=[^ ]*' )
    if [ $rc -eq 1 ]; then res="$res $id:CAUGHT($rule)"; elif [ $rc -eq 0 ]; then res="$res $id:missed"; else res="$res $id:rc$rc"; fi
  done
  git -C /repo checkout -- .
  echo "$n:$res"
done
