#![no_main]
use libfuzzer_sys::fuzz_target;

fuzz_target!(|data: &[u8]| {
    if let Err(f) = vharness::fuzz::chunk_target(data) {
        // known open findings are tolerated in-target so that the campaign continues behind them
        if vharness::fuzz::tolerated(&f) {
            return;
        }
        eprintln!("FUZZ-FAIL rule={} sig={}\n{}", f.rule, f.sig, f.detail);
        panic!("property violated: {}", f.rule);
    }
});
