//! Independent MQTT v3.1.1 / v5.0 encoder and framer, written from the OASIS specification text.
//! Shares no code and no constants with the library under test.

use crate::ap::*;

/// Variable Byte Integer, minimal encoding (MQTT 5.0 §1.5.5 / 3.1.1 §2.2.3)
pub fn vbi(mut x: u32, out: &mut Vec<u8>) {
    loop {
        let mut b = (x % 128) as u8;
        x /= 128;
        if x > 0 {
            b |= 0x80;
        }
        out.push(b);
        if x == 0 {
            break;
        }
    }
}

pub fn vbi_len(x: u32) -> usize {
    if x < 128 {
        1
    } else if x < 16_384 {
        2
    } else if x < 2_097_152 {
        3
    } else {
        4
    }
}

fn str16(s: &str, out: &mut Vec<u8>) {
    bin16(s.as_bytes(), out)
}

fn bin16(b: &[u8], out: &mut Vec<u8>) {
    assert!(b.len() <= 65535, "refcodec: string/binary too long");
    out.extend_from_slice(&(b.len() as u16).to_be_bytes());
    out.extend_from_slice(b);
}

fn pidw(id: u32, idw: usize, out: &mut Vec<u8>) {
    match idw {
        2 => out.extend_from_slice(&(id as u16).to_be_bytes()),
        4 => out.extend_from_slice(&id.to_be_bytes()),
        _ => panic!("id width"),
    }
}

pub fn enc_prop(p: &Prop, out: &mut Vec<u8>) {
    out.push(p.id);
    match &p.val {
        PVal::U8(v) => out.push(*v),
        PVal::U16(v) => out.extend_from_slice(&v.to_be_bytes()),
        PVal::U32(v) => out.extend_from_slice(&v.to_be_bytes()),
        PVal::Vbi(v) => vbi(*v, out),
        PVal::Str(s) => str16(s, out),
        PVal::Bin(b) => bin16(b, out),
        PVal::Pair(k, v) => {
            str16(k, out);
            str16(v, out);
        }
    }
}

/// property length + properties
pub fn enc_props(ps: &[Prop], out: &mut Vec<u8>) {
    let mut body = Vec::new();
    for p in ps {
        enc_prop(p, &mut body);
    }
    vbi(body.len() as u32, out);
    out.extend_from_slice(&body);
}

fn frame_of(first: u8, body: Vec<u8>) -> Vec<u8> {
    let mut out = Vec::with_capacity(body.len() + 5);
    out.push(first);
    vbi(body.len() as u32, &mut out);
    out.extend_from_slice(&body);
    out
}

/// Encode an abstract packet exactly as the specification prescribes.
/// `idw` = packet identifier width in bytes (2 standard, 4 for the library's extended ids).
pub fn encode(ap: &AP, idw: usize) -> Vec<u8> {
    let mut b = Vec::new();
    match ap {
        AP::Connect { v, clean, keep_alive, client_id, will, user, pass, props } => {
            str16("MQTT", &mut b);
            b.push(v.level());
            let mut flags = 0u8;
            if *clean {
                flags |= 0x02;
            }
            if let Some(w) = will {
                flags |= 0x04;
                flags |= (w.qos & 3) << 3;
                if w.retain {
                    flags |= 0x20;
                }
            }
            if pass.is_some() {
                flags |= 0x40;
            }
            if user.is_some() {
                flags |= 0x80;
            }
            b.push(flags);
            b.extend_from_slice(&keep_alive.to_be_bytes());
            if *v == V::V5 {
                enc_props(props, &mut b);
            }
            str16(client_id, &mut b);
            if let Some(w) = will {
                if *v == V::V5 {
                    enc_props(&w.props, &mut b);
                }
                str16(&w.topic, &mut b);
                bin16(&w.payload, &mut b);
            }
            if let Some(u) = user {
                str16(u, &mut b);
            }
            if let Some(p) = pass {
                bin16(p, &mut b);
            }
            frame_of(0x10, b)
        }
        AP::Connack { v, sp, code, props } => {
            b.push(if *sp { 1 } else { 0 });
            b.push(*code);
            if *v == V::V5 {
                enc_props(props, &mut b);
            }
            frame_of(0x20, b)
        }
        AP::Publish { v, dup, qos, retain, topic, pid, props, payload } => {
            let first = 0x30 | ((*dup as u8) << 3) | ((qos & 3) << 1) | (*retain as u8);
            str16(topic, &mut b);
            if *qos > 0 {
                pidw(pid.expect("refcodec: qos>0 publish needs an id"), idw, &mut b);
            }
            if *v == V::V5 {
                enc_props(props, &mut b);
            }
            b.extend_from_slice(payload);
            frame_of(first, b)
        }
        AP::Ack { v, kind, pid, rc, props } => {
            let first = (kind.type_nibble() << 4) | if *kind == AckKind::Pubrel { 0x02 } else { 0 };
            pidw(*pid, idw, &mut b);
            // v5: reason code and property length may be omitted (§3.4.2.1); v3.1.1 has neither,
            // the library's non-standard optional reason byte is written when the AP carries one.
            if let Some(rc) = rc {
                b.push(*rc);
                if *v == V::V5 {
                    if let Some(ps) = props {
                        enc_props(ps, &mut b);
                    }
                }
            }
            frame_of(first, b)
        }
        AP::Subscribe { v, pid, props, entries } => {
            pidw(*pid, idw, &mut b);
            if *v == V::V5 {
                enc_props(props, &mut b);
            }
            for (t, o) in entries {
                str16(t, &mut b);
                b.push(*o);
            }
            frame_of(0x82, b)
        }
        AP::Suback { v, pid, props, codes } => {
            pidw(*pid, idw, &mut b);
            if *v == V::V5 {
                enc_props(props, &mut b);
            }
            b.extend_from_slice(codes);
            frame_of(0x90, b)
        }
        AP::Unsubscribe { v, pid, props, topics } => {
            pidw(*pid, idw, &mut b);
            if *v == V::V5 {
                enc_props(props, &mut b);
            }
            for t in topics {
                str16(t, &mut b);
            }
            frame_of(0xA2, b)
        }
        AP::Unsuback { v, pid, props, codes } => {
            pidw(*pid, idw, &mut b);
            if *v == V::V5 {
                enc_props(props, &mut b);
                b.extend_from_slice(codes);
            }
            frame_of(0xB0, b)
        }
        AP::Pingreq { .. } => frame_of(0xC0, b),
        AP::Pingresp { .. } => frame_of(0xD0, b),
        AP::Disconnect { v, rc, props } => {
            if *v == V::V5 {
                if let Some(rc) = rc {
                    b.push(*rc);
                    if let Some(ps) = props {
                        enc_props(ps, &mut b);
                    }
                }
            }
            frame_of(0xE0, b)
        }
        AP::Auth { rc, props } => {
            // §3.15.2.1: reason code and property length may only be omitted together (Remaining Length 0);
            // unlike PUBACK/DISCONNECT there is no "reason code without property length" form.
            if let Some(rc) = rc {
                b.push(*rc);
                enc_props(props.as_deref().unwrap_or(&[]), &mut b);
            }
            frame_of(0xF0, b)
        }
    }
}

/// One result of the reference framer.
#[derive(Clone, Debug, PartialEq, Eq)]
pub enum Frame {
    /// (first byte, body, total encoded length of the frame in the stream)
    Complete { first: u8, body: Vec<u8>, total: usize },
    /// Remaining Length used a fifth byte; the error is reported when that byte is read (5 bytes consumed)
    BadLength,
}

/// Reference stream framer: splits `stream` into frames; returns frames and the number of bytes
/// that belong to a trailing incomplete frame.
pub fn frame(stream: &[u8]) -> (Vec<Frame>, usize) {
    let mut out = Vec::new();
    let mut i = 0usize;
    'outer: while i < stream.len() {
        let first = stream[i];
        // remaining length
        let mut val: usize = 0;
        let mut mult: usize = 1;
        let mut j = i + 1;
        let mut n = 0;
        loop {
            if j >= stream.len() {
                return (out, stream.len() - i);
            }
            let e = stream[j];
            j += 1;
            n += 1;
            if n == 4 && (e & 0x80) != 0 {
                // a 4th length byte with continuation bit: malformed; reported on that byte
                out.push(Frame::BadLength);
                i = j;
                continue 'outer;
            }
            val += ((e & 0x7f) as usize) * mult;
            mult *= 128;
            if e & 0x80 == 0 {
                break;
            }
        }
        if stream.len() - j < val {
            return (out, stream.len() - i);
        }
        out.push(Frame::Complete { first, body: stream[j..j + val].to_vec(), total: j + val - i });
        i = j + val;
    }
    (out, 0)
}

#[cfg(test)]
mod tests {
    use super::*;

    #[test]
    fn golden_connect_311() {
        // MQTT 3.1.1 spec figure 3.x style: client id "a", clean session, keep alive 10
        let ap = AP::Connect {
            v: V::V311,
            clean: true,
            keep_alive: 10,
            client_id: "a".into(),
            will: None,
            user: None,
            pass: None,
            props: vec![],
        };
        assert_eq!(
            encode(&ap, 2),
            vec![0x10, 13, 0, 4, b'M', b'Q', b'T', b'T', 4, 2, 0, 10, 0, 1, b'a']
        );
    }

    #[test]
    fn golden_vbi() {
        for (x, e) in [
            (0u32, vec![0u8]),
            (127, vec![0x7f]),
            (128, vec![0x80, 0x01]),
            (16383, vec![0xff, 0x7f]),
            (16384, vec![0x80, 0x80, 0x01]),
            (2097151, vec![0xff, 0xff, 0x7f]),
            (2097152, vec![0x80, 0x80, 0x80, 0x01]),
            (268435455, vec![0xff, 0xff, 0xff, 0x7f]),
        ] {
            let mut o = vec![];
            vbi(x, &mut o);
            assert_eq!(o, e);
            assert_eq!(vbi_len(x), e.len());
        }
    }

    #[test]
    fn golden_publish_v5() {
        let ap = AP::Publish {
            v: V::V5,
            dup: false,
            qos: 1,
            retain: true,
            topic: "a/b".into(),
            pid: Some(10),
            props: vec![Prop::u16(35, 7)],
            payload: vec![1, 2],
        };
        assert_eq!(
            encode(&ap, 2),
            vec![0x33, 12, 0, 3, b'a', b'/', b'b', 0, 10, 3, 35, 0, 7, 1, 2]
        );
    }

    #[test]
    fn framer() {
        let s = [0xC0, 0, 0x30, 2, 9, 9, 0xD0];
        let (f, rest) = frame(&s);
        assert_eq!(f.len(), 2);
        assert_eq!(rest, 1);
        let s = [0x10, 0x80, 0x80, 0x80, 0x80, 0xC0, 0];
        let (f, rest) = frame(&s);
        assert_eq!(f[0], Frame::BadLength);
        assert_eq!(f.len(), 2);
        assert_eq!(rest, 0);
    }
}
