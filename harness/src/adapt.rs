//! AP -> library packet through the PUBLIC builders; library packet -> AP through PUBLIC accessors.

use crate::ap::*;
use mqtt_protocol_core::mqtt;
use mqtt_protocol_core::mqtt::packet::v3_1_1 as v3;
use mqtt_protocol_core::mqtt::packet::v5_0 as v5;
use mqtt_protocol_core::mqtt::packet::{
    GenericPacket, IsPacketId, Properties, Property, Qos, SubEntry, SubOpts,
};
use mqtt_protocol_core::mqtt::packet::prelude::PropertyValueAccess;
use mqtt_protocol_core::mqtt::result_code::*;

/// Subscription Options through the public setter API (`SubOpts::new().set_qos(..).set_nl(..)...`), the four setters called in
/// one of the 24 orders (chosen by the option byte and the filter length, so every order meets every value combination);
/// a byte the setters cannot express (reserved bits, QoS 3, Retain Handling 3) goes through `from_u8`, which must refuse it.
/// The result must equal what `from_u8` makes of the same byte.
fn sub_opts_via_setters(o: u8, salt: usize) -> Result<SubOpts, mqtt::result_code::MqttError> {
    let direct = SubOpts::from_u8(o);
    let (q, nl, rap, rh) = (o & 3, o & 4 != 0, o & 8 != 0, (o >> 4) & 3);
    if o & 0xC0 != 0 || q == 3 || rh == 3 {
        return direct;
    }
    let qos = Qos::try_from(q).map_err(|_| mqtt::result_code::MqttError::MalformedPacket)?;
    let rhv = mqtt::packet::RetainHandling::try_from(rh).map_err(|_| mqtt::result_code::MqttError::MalformedPacket)?;
    // the k-th permutation of the four setters
    let mut idx: Vec<u8> = vec![0, 1, 2, 3];
    let mut k = (o as usize).wrapping_mul(7).wrapping_add(salt) % 24;
    let mut order = Vec::new();
    for n in (1..=4).rev() {
        order.push(idx.remove(k % n));
        k /= n;
    }
    let mut so = SubOpts::new();
    for s in order {
        so = match s {
            0 => so.set_qos(qos),
            1 => so.set_nl(nl),
            2 => so.set_rap(rap),
            _ => so.set_rh(rhv),
        };
    }
    // hand back the setter-built value: it is what an application using the documented builder chain would send
    direct.map(|_| so)
}

pub trait Pid: IsPacketId + mqtt::packet::IntoPacketId<Self> + Send + Sync + 'static {
    const W: usize;
    fn from_u32(x: u32) -> Option<Self>;
    fn to_u32w(self) -> u32;
}
impl Pid for u16 {
    const W: usize = 2;
    fn from_u32(x: u32) -> Option<u16> {
        u16::try_from(x).ok()
    }
    fn to_u32w(self) -> u32 {
        self as u32
    }
}
impl Pid for u32 {
    const W: usize = 4;
    fn from_u32(x: u32) -> Option<u32> {
        Some(x)
    }
    fn to_u32w(self) -> u32 {
        self
    }
}

fn e<T: core::fmt::Debug>(what: &str, x: T) -> String {
    format!("{what}: {x:?}")
}

pub fn qos_of(q: u8) -> Result<Qos, String> {
    match q {
        0 => Ok(Qos::AtMostOnce),
        1 => Ok(Qos::AtLeastOnce),
        2 => Ok(Qos::ExactlyOnce),
        _ => Err(format!("qos {q}")),
    }
}

pub fn prop_to_lib(p: &Prop) -> Result<Property, String> {
    use mqtt::packet as mp;
    use pid::*;
    macro_rules! mk {
        ($t:ident, $v:expr) => {
            mp::$t::new($v).map(Property::from).map_err(|x| e(stringify!($t), x))
        };
    }
    match (p.id, &p.val) {
        (PAYLOAD_FORMAT_INDICATOR, PVal::U8(v)) => match v {
            0 => mk!(PayloadFormatIndicator, mp::PayloadFormat::Binary),
            1 => mk!(PayloadFormatIndicator, mp::PayloadFormat::String),
            _ => Err(format!("PayloadFormatIndicator value {v} not constructible")),
        },
        (MESSAGE_EXPIRY_INTERVAL, PVal::U32(v)) => mk!(MessageExpiryInterval, *v),
        (CONTENT_TYPE, PVal::Str(s)) => mk!(ContentType, s.as_str()),
        (RESPONSE_TOPIC, PVal::Str(s)) => mk!(ResponseTopic, s.as_str()),
        (CORRELATION_DATA, PVal::Bin(b)) => mk!(CorrelationData, b.clone()),
        (SUBSCRIPTION_IDENTIFIER, PVal::Vbi(v)) => mk!(SubscriptionIdentifier, *v),
        (SESSION_EXPIRY_INTERVAL, PVal::U32(v)) => mk!(SessionExpiryInterval, *v),
        (ASSIGNED_CLIENT_IDENTIFIER, PVal::Str(s)) => mk!(AssignedClientIdentifier, s.as_str()),
        (SERVER_KEEP_ALIVE, PVal::U16(v)) => mk!(ServerKeepAlive, *v),
        (AUTHENTICATION_METHOD, PVal::Str(s)) => mk!(AuthenticationMethod, s.as_str()),
        (AUTHENTICATION_DATA, PVal::Bin(b)) => mk!(AuthenticationData, b.clone()),
        (REQUEST_PROBLEM_INFORMATION, PVal::U8(v)) => mk!(RequestProblemInformation, *v),
        (WILL_DELAY_INTERVAL, PVal::U32(v)) => mk!(WillDelayInterval, *v),
        (REQUEST_RESPONSE_INFORMATION, PVal::U8(v)) => mk!(RequestResponseInformation, *v),
        (RESPONSE_INFORMATION, PVal::Str(s)) => mk!(ResponseInformation, s.as_str()),
        (SERVER_REFERENCE, PVal::Str(s)) => mk!(ServerReference, s.as_str()),
        (REASON_STRING, PVal::Str(s)) => mk!(ReasonString, s.as_str()),
        (RECEIVE_MAXIMUM, PVal::U16(v)) => mk!(ReceiveMaximum, *v),
        (TOPIC_ALIAS_MAXIMUM, PVal::U16(v)) => mk!(TopicAliasMaximum, *v),
        (TOPIC_ALIAS, PVal::U16(v)) => mk!(TopicAlias, *v),
        (MAXIMUM_QOS, PVal::U8(v)) => mk!(MaximumQos, *v),
        (RETAIN_AVAILABLE, PVal::U8(v)) => mk!(RetainAvailable, *v),
        (USER_PROPERTY, PVal::Pair(k, v)) => mp::UserProperty::new(k.as_str(), v.as_str())
            .map(Property::from)
            .map_err(|x| e("UserProperty", x)),
        (MAXIMUM_PACKET_SIZE, PVal::U32(v)) => mk!(MaximumPacketSize, *v),
        (WILDCARD_SUBSCRIPTION_AVAILABLE, PVal::U8(v)) => mk!(WildcardSubscriptionAvailable, *v),
        (SUBSCRIPTION_IDENTIFIER_AVAILABLE, PVal::U8(v)) => mk!(SubscriptionIdentifierAvailable, *v),
        (SHARED_SUBSCRIPTION_AVAILABLE, PVal::U8(v)) => mk!(SharedSubscriptionAvailable, *v),
        _ => Err(format!("property id {} with value {:?} not constructible", p.id, p.val)),
    }
}

pub fn props_to_lib(ps: &[Prop]) -> Result<Properties, String> {
    ps.iter().map(prop_to_lib).collect()
}

/// Read a library property through its public accessors only.
pub fn prop_from_lib(p: &Property) -> Prop {
    let id = p.id().as_u8();
    let ty = prop_spec(id).map(|s| s.ty);
    let val = match ty {
        Some(PT::Byte) => PVal::U8(p.as_u8().expect("as_u8")),
        Some(PT::U16) => PVal::U16(p.as_u16().expect("as_u16")),
        Some(PT::U32) => PVal::U32(p.as_u32().expect("as_u32")),
        Some(PT::Vbi) => PVal::Vbi(p.as_u32().expect("as_u32 vbi")),
        Some(PT::Str) => PVal::Str(p.as_str().expect("as_str").to_string()),
        Some(PT::Bin) => PVal::Bin(p.as_bytes().expect("as_bytes").to_vec()),
        Some(PT::Pair) => {
            let (k, v) = p.as_key_value().expect("as_key_value");
            PVal::Pair(k.to_string(), v.to_string())
        }
        None => panic!("library reports unknown property id {id}"),
    };
    Prop { id, val }
}

pub fn props_from_lib(ps: &[Property]) -> Vec<Prop> {
    ps.iter().map(prop_from_lib).collect()
}

fn need_pid<P: Pid>(x: u32) -> Result<P, String> {
    P::from_u32(x).ok_or_else(|| format!("packet id {x} does not fit id width"))
}

/// Build the library packet for `ap` through the public builders only.
pub fn to_lib<P: Pid>(ap: &AP) -> Result<GenericPacket<P>, String> {
    match ap {
        AP::Connect { v: V::V311, clean, keep_alive, client_id, will, user, pass, props } => {
            if !props.is_empty() {
                return Err("v3.1.1 CONNECT has no properties".into());
            }
            let mut b = v3::Connect::builder()
                .clean_session(*clean)
                .keep_alive(*keep_alive)
                .client_id(client_id.as_str())
                .map_err(|x| e("client_id", x))?;
            if let Some(w) = will {
                if !w.props.is_empty() {
                    return Err("v3.1.1 will has no properties".into());
                }
                b = b
                    .will_message(w.topic.as_str(), w.payload.clone(), qos_of(w.qos)?, w.retain)
                    .map_err(|x| e("will", x))?;
            }
            if let Some(u) = user {
                b = b.user_name(u.as_str()).map_err(|x| e("user", x))?;
            }
            if let Some(p) = pass {
                b = b.password(p.clone()).map_err(|x| e("pass", x))?;
            }
            Ok(b.build().map_err(|x| e("build", x))?.into())
        }
        AP::Connect { v: V::V5, clean, keep_alive, client_id, will, user, pass, props } => {
            let mut b = v5::Connect::builder()
                .clean_start(*clean)
                .keep_alive(*keep_alive)
                .client_id(client_id.as_str())
                .map_err(|x| e("client_id", x))?;
            if !props.is_empty() {
                b = b.props(props_to_lib(props)?);
            }
            if let Some(w) = will {
                b = b
                    .will_message(w.topic.as_str(), w.payload.clone(), qos_of(w.qos)?, w.retain)
                    .map_err(|x| e("will", x))?;
                if !w.props.is_empty() {
                    b = b.will_props(props_to_lib(&w.props)?);
                }
            }
            if let Some(u) = user {
                b = b.user_name(u.as_str()).map_err(|x| e("user", x))?;
            }
            if let Some(p) = pass {
                b = b.password(p.clone()).map_err(|x| e("pass", x))?;
            }
            Ok(b.build().map_err(|x| e("build", x))?.into())
        }
        AP::Connack { v: V::V311, sp, code, props } => {
            if !props.is_empty() {
                return Err("v3.1.1 CONNACK has no properties".into());
            }
            let rc = ConnectReturnCode::try_from(*code).map_err(|x| e("return code", x))?;
            Ok(v3::Connack::builder()
                .session_present(*sp)
                .return_code(rc)
                .build()
                .map_err(|x| e("build", x))?
                .into())
        }
        AP::Connack { v: V::V5, sp, code, props } => {
            let rc = ConnectReasonCode::try_from(*code).map_err(|x| e("reason code", x))?;
            let mut b = v5::Connack::builder().session_present(*sp).reason_code(rc);
            if !props.is_empty() {
                b = b.props(props_to_lib(props)?);
            }
            Ok(b.build().map_err(|x| e("build", x))?.into())
        }
        AP::Publish { v: V::V311, dup, qos, retain, topic, pid, props, payload } => {
            if !props.is_empty() {
                return Err("v3.1.1 PUBLISH has no properties".into());
            }
            let mut b = v3::GenericPublish::<P>::builder()
                .topic_name(topic.as_str())
                .map_err(|x| e("topic", x))?
                .qos(qos_of(*qos)?)
                .dup(*dup)
                .retain(*retain)
                .payload(payload.clone());
            if let Some(id) = pid {
                b = b.packet_id(need_pid::<P>(*id)?);
            }
            Ok(b.build().map_err(|x| e("build", x))?.into())
        }
        AP::Publish { v: V::V5, dup, qos, retain, topic, pid, props, payload } => {
            let mut b = v5::GenericPublish::<P>::builder()
                .topic_name(topic.as_str())
                .map_err(|x| e("topic", x))?
                .qos(qos_of(*qos)?)
                .dup(*dup)
                .retain(*retain)
                .payload(payload.clone());
            if let Some(id) = pid {
                b = b.packet_id(need_pid::<P>(*id)?);
            }
            if !props.is_empty() {
                b = b.props(props_to_lib(props)?);
            }
            Ok(b.build().map_err(|x| e("build", x))?.into())
        }
        AP::Ack { v, kind, pid, rc, props } => {
            let id = need_pid::<P>(*pid)?;
            macro_rules! ack3 {
                ($t:ident, $rc:ident) => {{
                    if props.is_some() {
                        return Err("v3.1.1 ack has no properties".into());
                    }
                    let mut b = v3::$t::<P>::builder().packet_id(id);
                    if let Some(rc) = rc {
                        b = b.reason_code($rc::try_from(*rc).map_err(|x| e("reason code", x))?);
                    }
                    Ok(b.build().map_err(|x| e("build", x))?.into())
                }};
            }
            macro_rules! ack5 {
                ($t:ident, $rc:ident) => {{
                    let mut b = v5::$t::<P>::builder().packet_id(id);
                    if let Some(rc) = rc {
                        b = b.reason_code($rc::try_from(*rc).map_err(|x| e("reason code", x))?);
                    }
                    if let Some(ps) = props {
                        b = b.props(props_to_lib(ps)?);
                    }
                    Ok(b.build().map_err(|x| e("build", x))?.into())
                }};
            }
            match (v, kind) {
                (V::V311, AckKind::Puback) => ack3!(GenericPuback, PubackReasonCode),
                (V::V311, AckKind::Pubrec) => ack3!(GenericPubrec, PubrecReasonCode),
                (V::V311, AckKind::Pubrel) => ack3!(GenericPubrel, PubrelReasonCode),
                (V::V311, AckKind::Pubcomp) => ack3!(GenericPubcomp, PubcompReasonCode),
                (V::V5, AckKind::Puback) => ack5!(GenericPuback, PubackReasonCode),
                (V::V5, AckKind::Pubrec) => ack5!(GenericPubrec, PubrecReasonCode),
                (V::V5, AckKind::Pubrel) => ack5!(GenericPubrel, PubrelReasonCode),
                (V::V5, AckKind::Pubcomp) => ack5!(GenericPubcomp, PubcompReasonCode),
            }
        }
        AP::Subscribe { v, pid, props, entries } => {
            let id = need_pid::<P>(*pid)?;
            let mut es = Vec::new();
            for (t, o) in entries {
                let so = sub_opts_via_setters(*o, t.len()).map_err(|x| e("subopts", x))?;
                es.push(SubEntry::new(t.as_str(), so).map_err(|x| e("subentry", x))?);
            }
            match v {
                V::V311 => {
                    if !props.is_empty() {
                        return Err("v3.1.1 SUBSCRIBE has no properties".into());
                    }
                    Ok(v3::GenericSubscribe::<P>::builder()
                        .packet_id(id)
                        .entries(es)
                        .build()
                        .map_err(|x| e("build", x))?
                        .into())
                }
                V::V5 => {
                    let mut b = v5::GenericSubscribe::<P>::builder().packet_id(id).entries(es);
                    if !props.is_empty() {
                        b = b.props(props_to_lib(props)?);
                    }
                    Ok(b.build().map_err(|x| e("build", x))?.into())
                }
            }
        }
        AP::Suback { v: V::V311, pid, props, codes } => {
            if !props.is_empty() {
                return Err("v3.1.1 SUBACK has no properties".into());
            }
            let id = need_pid::<P>(*pid)?;
            let mut cs = Vec::new();
            for c in codes {
                cs.push(SubackReturnCode::try_from(*c).map_err(|x| e("return code", x))?);
            }
            Ok(v3::GenericSuback::<P>::builder()
                .packet_id(id)
                .return_codes(cs)
                .build()
                .map_err(|x| e("build", x))?
                .into())
        }
        AP::Suback { v: V::V5, pid, props, codes } => {
            let id = need_pid::<P>(*pid)?;
            let mut cs = Vec::new();
            for c in codes {
                cs.push(SubackReasonCode::try_from(*c).map_err(|x| e("reason code", x))?);
            }
            let mut b = v5::GenericSuback::<P>::builder().packet_id(id).reason_codes(cs);
            if !props.is_empty() {
                b = b.props(props_to_lib(props)?);
            }
            Ok(b.build().map_err(|x| e("build", x))?.into())
        }
        AP::Unsubscribe { v, pid, props, topics } => {
            let id = need_pid::<P>(*pid)?;
            let ts: Vec<&str> = topics.iter().map(|s| s.as_str()).collect();
            match v {
                V::V311 => {
                    if !props.is_empty() {
                        return Err("v3.1.1 UNSUBSCRIBE has no properties".into());
                    }
                    Ok(v3::GenericUnsubscribe::<P>::builder()
                        .packet_id(id)
                        .entries(ts)
                        .map_err(|x| e("entries", x))?
                        .build()
                        .map_err(|x| e("build", x))?
                        .into())
                }
                V::V5 => {
                    let mut b = v5::GenericUnsubscribe::<P>::builder()
                        .packet_id(id)
                        .entries(ts)
                        .map_err(|x| e("entries", x))?;
                    if !props.is_empty() {
                        b = b.props(props_to_lib(props)?);
                    }
                    Ok(b.build().map_err(|x| e("build", x))?.into())
                }
            }
        }
        AP::Unsuback { v: V::V311, pid, props, codes } => {
            if !props.is_empty() || !codes.is_empty() {
                return Err("v3.1.1 UNSUBACK has neither properties nor codes".into());
            }
            let id = need_pid::<P>(*pid)?;
            Ok(v3::GenericUnsuback::<P>::builder()
                .packet_id(id)
                .build()
                .map_err(|x| e("build", x))?
                .into())
        }
        AP::Unsuback { v: V::V5, pid, props, codes } => {
            let id = need_pid::<P>(*pid)?;
            let mut cs = Vec::new();
            for c in codes {
                cs.push(UnsubackReasonCode::try_from(*c).map_err(|x| e("reason code", x))?);
            }
            let mut b = v5::GenericUnsuback::<P>::builder().packet_id(id).reason_codes(cs);
            if !props.is_empty() {
                b = b.props(props_to_lib(props)?);
            }
            Ok(b.build().map_err(|x| e("build", x))?.into())
        }
        AP::Pingreq { v: V::V311 } => Ok(v3::Pingreq::builder().build().map_err(|x| e("build", x))?.into()),
        AP::Pingreq { v: V::V5 } => Ok(v5::Pingreq::builder().build().map_err(|x| e("build", x))?.into()),
        AP::Pingresp { v: V::V311 } => Ok(v3::Pingresp::builder().build().map_err(|x| e("build", x))?.into()),
        AP::Pingresp { v: V::V5 } => Ok(v5::Pingresp::builder().build().map_err(|x| e("build", x))?.into()),
        AP::Disconnect { v: V::V311, rc, props } => {
            if rc.is_some() || props.is_some() {
                return Err("v3.1.1 DISCONNECT has no reason code".into());
            }
            Ok(v3::Disconnect::builder().build().map_err(|x| e("build", x))?.into())
        }
        AP::Disconnect { v: V::V5, rc, props } => {
            let mut b = v5::Disconnect::builder();
            if let Some(rc) = rc {
                b = b.reason_code(DisconnectReasonCode::try_from(*rc).map_err(|x| e("reason code", x))?);
            }
            if let Some(ps) = props {
                b = b.props(props_to_lib(ps)?);
            }
            Ok(b.build().map_err(|x| e("build", x))?.into())
        }
        AP::Auth { rc, props } => {
            let mut b = v5::Auth::builder();
            if let Some(rc) = rc {
                b = b.reason_code(AuthReasonCode::try_from(*rc).map_err(|x| e("reason code", x))?);
            }
            if let Some(ps) = props {
                b = b.props(props_to_lib(ps)?);
            }
            Ok(b.build().map_err(|x| e("build", x))?.into())
        }
    }
}

fn will_from<'a>(
    flag: bool,
    topic: Option<&'a str>,
    payload: Option<&'a [u8]>,
    qos: Qos,
    retain: bool,
    props: Vec<Prop>,
) -> Option<Will> {
    if !flag {
        return None;
    }
    Some(Will {
        topic: topic.unwrap_or("").to_string(),
        payload: payload.unwrap_or(&[]).to_vec(),
        qos: qos as u8,
        retain,
        props,
    })
}

/// Read a library packet back into an AP using only public accessors.
pub fn from_lib<P: Pid>(p: &GenericPacket<P>) -> AP {
    use GenericPacket as G;
    match p {
        G::V3_1_1Connect(c) => AP::Connect {
            v: V::V311,
            clean: c.clean_session(),
            keep_alive: c.keep_alive(),
            client_id: c.client_id().to_string(),
            will: will_from(c.will_flag(), c.will_topic(), c.will_payload(), c.will_qos(), c.will_retain(), vec![]),
            user: c.user_name().map(|s| s.to_string()),
            pass: c.password().map(|b| b.to_vec()),
            props: vec![],
        },
        G::V5_0Connect(c) => AP::Connect {
            v: V::V5,
            clean: c.clean_start(),
            keep_alive: c.keep_alive(),
            client_id: c.client_id().to_string(),
            will: will_from(
                c.will_flag(),
                c.will_topic(),
                c.will_payload(),
                c.will_qos(),
                c.will_retain(),
                props_from_lib(c.will_props()),
            ),
            user: c.user_name().map(|s| s.to_string()),
            pass: c.password().map(|b| b.to_vec()),
            props: props_from_lib(c.props()),
        },
        G::V3_1_1Connack(c) => {
            AP::Connack { v: V::V311, sp: c.session_present(), code: c.return_code() as u8, props: vec![] }
        }
        G::V5_0Connack(c) => AP::Connack {
            v: V::V5,
            sp: c.session_present(),
            code: c.reason_code() as u8,
            props: props_from_lib(c.props()),
        },
        G::V3_1_1Publish(c) => AP::Publish {
            v: V::V311,
            dup: c.dup(),
            qos: c.qos() as u8,
            retain: c.retain(),
            topic: c.topic_name().to_string(),
            pid: c.packet_id().map(|x| x.to_u32w()),
            props: vec![],
            payload: c.payload().as_slice().to_vec(),
        },
        G::V5_0Publish(c) => AP::Publish {
            v: V::V5,
            dup: c.dup(),
            qos: c.qos() as u8,
            retain: c.retain(),
            topic: c.topic_name().to_string(),
            pid: c.packet_id().map(|x| x.to_u32w()),
            props: props_from_lib(c.props()),
            payload: c.payload().as_slice().to_vec(),
        },
        G::V3_1_1Puback(c) => ack3(AckKind::Puback, c.packet_id().to_u32w(), c.reason_code().map(|r| r as u8)),
        G::V3_1_1Pubrec(c) => ack3(AckKind::Pubrec, c.packet_id().to_u32w(), c.reason_code().map(|r| r as u8)),
        G::V3_1_1Pubrel(c) => ack3(AckKind::Pubrel, c.packet_id().to_u32w(), c.reason_code().map(|r| r as u8)),
        G::V3_1_1Pubcomp(c) => ack3(AckKind::Pubcomp, c.packet_id().to_u32w(), c.reason_code().map(|r| r as u8)),
        G::V5_0Puback(c) => AP::Ack {
            v: V::V5,
            kind: AckKind::Puback,
            pid: c.packet_id().to_u32w(),
            rc: c.reason_code().map(|r| r as u8),
            props: c.props().as_ref().map(|p| props_from_lib(p)),
        },
        G::V5_0Pubrec(c) => AP::Ack {
            v: V::V5,
            kind: AckKind::Pubrec,
            pid: c.packet_id().to_u32w(),
            rc: c.reason_code().map(|r| r as u8),
            props: c.props().as_ref().map(|p| props_from_lib(p)),
        },
        G::V5_0Pubrel(c) => AP::Ack {
            v: V::V5,
            kind: AckKind::Pubrel,
            pid: c.packet_id().to_u32w(),
            rc: c.reason_code().map(|r| r as u8),
            props: c.props().as_ref().map(|p| props_from_lib(p)),
        },
        G::V5_0Pubcomp(c) => AP::Ack {
            v: V::V5,
            kind: AckKind::Pubcomp,
            pid: c.packet_id().to_u32w(),
            rc: c.reason_code().map(|r| r as u8),
            props: c.props().as_ref().map(|p| props_from_lib(p)),
        },
        G::V3_1_1Subscribe(c) => AP::Subscribe {
            v: V::V311,
            pid: c.packet_id().to_u32w(),
            props: vec![],
            entries: c
                .entries()
                .iter()
                .map(|e| (e.topic_filter().to_string(), e.sub_opts().to_buffer()[0]))
                .collect(),
        },
        G::V5_0Subscribe(c) => AP::Subscribe {
            v: V::V5,
            pid: c.packet_id().to_u32w(),
            props: props_from_lib(c.props()),
            entries: c
                .entries()
                .iter()
                .map(|e| (e.topic_filter().to_string(), e.sub_opts().to_buffer()[0]))
                .collect(),
        },
        G::V3_1_1Suback(c) => AP::Suback {
            v: V::V311,
            pid: c.packet_id().to_u32w(),
            props: vec![],
            codes: c.return_codes().iter().map(|r| *r as u8).collect(),
        },
        G::V5_0Suback(c) => AP::Suback {
            v: V::V5,
            pid: c.packet_id().to_u32w(),
            props: props_from_lib(c.props()),
            codes: c.reason_codes().iter().map(|r| *r as u8).collect(),
        },
        G::V3_1_1Unsubscribe(c) => AP::Unsubscribe {
            v: V::V311,
            pid: c.packet_id().to_u32w(),
            props: vec![],
            topics: c.entries().iter().map(|s| s.as_str().to_string()).collect(),
        },
        G::V5_0Unsubscribe(c) => AP::Unsubscribe {
            v: V::V5,
            pid: c.packet_id().to_u32w(),
            props: props_from_lib(c.props()),
            topics: c.entries().iter().map(|s| s.as_str().to_string()).collect(),
        },
        G::V3_1_1Unsuback(c) => {
            AP::Unsuback { v: V::V311, pid: c.packet_id().to_u32w(), props: vec![], codes: vec![] }
        }
        G::V5_0Unsuback(c) => AP::Unsuback {
            v: V::V5,
            pid: c.packet_id().to_u32w(),
            props: props_from_lib(c.props()),
            codes: c.reason_codes().iter().map(|r| *r as u8).collect(),
        },
        G::V3_1_1Pingreq(_) => AP::Pingreq { v: V::V311 },
        G::V5_0Pingreq(_) => AP::Pingreq { v: V::V5 },
        G::V3_1_1Pingresp(_) => AP::Pingresp { v: V::V311 },
        G::V5_0Pingresp(_) => AP::Pingresp { v: V::V5 },
        G::V3_1_1Disconnect(_) => AP::Disconnect { v: V::V311, rc: None, props: None },
        G::V5_0Disconnect(c) => AP::Disconnect {
            v: V::V5,
            rc: c.reason_code().map(|r| r as u8),
            props: c.props().as_ref().map(|p| props_from_lib(p)),
        },
        G::V5_0Auth(c) => AP::Auth {
            rc: c.reason_code().map(|r| r as u8),
            props: c.props().as_ref().map(|p| props_from_lib(p)),
        },
    }
}

fn ack3(kind: AckKind, pid: u32, rc: Option<u8>) -> AP {
    AP::Ack { v: V::V311, kind, pid, rc, props: None }
}

/// Parse the body of a frame with the library parser that matches (version, type nibble).
/// Returns Err(text) for a parse error; panics propagate.
pub fn lib_parse<P: Pid>(v: V, first: u8, body: &[u8]) -> Result<(GenericPacket<P>, usize), String> {
    let t = first >> 4;
    let fl = first & 0x0f;
    macro_rules! p {
        ($e:expr) => {
            $e.map(|(p, n)| (p.into(), n)).map_err(|x| format!("{x:?}"))
        };
    }
    match (v, t) {
        (V::V311, 1) => p!(v3::Connect::parse(body)),
        (V::V5, 1) => p!(v5::Connect::parse(body)),
        (V::V311, 2) => p!(v3::Connack::parse(body)),
        (V::V5, 2) => p!(v5::Connack::parse(body)),
        (V::V311, 3) => p!(v3::GenericPublish::<P>::parse(fl, mqtt::Arc::from(body))),
        (V::V5, 3) => p!(v5::GenericPublish::<P>::parse(fl, mqtt::Arc::from(body))),
        (V::V311, 4) => p!(v3::GenericPuback::<P>::parse(body)),
        (V::V5, 4) => p!(v5::GenericPuback::<P>::parse(body)),
        (V::V311, 5) => p!(v3::GenericPubrec::<P>::parse(body)),
        (V::V5, 5) => p!(v5::GenericPubrec::<P>::parse(body)),
        (V::V311, 6) => p!(v3::GenericPubrel::<P>::parse(body)),
        (V::V5, 6) => p!(v5::GenericPubrel::<P>::parse(body)),
        (V::V311, 7) => p!(v3::GenericPubcomp::<P>::parse(body)),
        (V::V5, 7) => p!(v5::GenericPubcomp::<P>::parse(body)),
        (V::V311, 8) => p!(v3::GenericSubscribe::<P>::parse(body)),
        (V::V5, 8) => p!(v5::GenericSubscribe::<P>::parse(body)),
        (V::V311, 9) => p!(v3::GenericSuback::<P>::parse(body)),
        (V::V5, 9) => p!(v5::GenericSuback::<P>::parse(body)),
        (V::V311, 10) => p!(v3::GenericUnsubscribe::<P>::parse(body)),
        (V::V5, 10) => p!(v5::GenericUnsubscribe::<P>::parse(body)),
        (V::V311, 11) => p!(v3::GenericUnsuback::<P>::parse(body)),
        (V::V5, 11) => p!(v5::GenericUnsuback::<P>::parse(body)),
        (V::V311, 12) => p!(v3::Pingreq::parse(body)),
        (V::V5, 12) => p!(v5::Pingreq::parse(body)),
        (V::V311, 13) => p!(v3::Pingresp::parse(body)),
        (V::V5, 13) => p!(v5::Pingresp::parse(body)),
        (V::V311, 14) => p!(v3::Disconnect::parse(body)),
        (V::V5, 14) => p!(v5::Disconnect::parse(body)),
        (V::V5, 15) => p!(v5::Auth::parse(body)),
        _ => Err(format!("no parser for type {t} in {}", v.name())),
    }
}
