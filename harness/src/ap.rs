//! Abstract packets: a plain-data model of all MQTT v3.1.1 / v5.0 control packets.
//! Shares nothing with the library under test.

#[derive(Clone, Copy, Debug, PartialEq, Eq, Hash, PartialOrd, Ord, serde::Serialize, serde::Deserialize)]
pub enum V {
    V311,
    V5,
}

impl V {
    pub fn level(self) -> u8 {
        match self {
            V::V311 => 4,
            V::V5 => 5,
        }
    }
    pub fn name(self) -> &'static str {
        match self {
            V::V311 => "v3.1.1",
            V::V5 => "v5.0",
        }
    }
}

/// Wire type of a property value (MQTT v5.0 section 2.2.2.2)
#[derive(Clone, Copy, Debug, PartialEq, Eq, Hash, serde::Serialize, serde::Deserialize)]
pub enum PT {
    Byte,
    U16,
    U32,
    Vbi,
    Str,
    Bin,
    Pair,
}

#[derive(Clone, Debug, PartialEq, Eq, Hash, serde::Serialize, serde::Deserialize)]
pub enum PVal {
    U8(u8),
    U16(u16),
    U32(u32),
    Vbi(u32),
    Str(String),
    Bin(#[serde(with = "hexser")] Vec<u8>),
    Pair(String, String),
}

#[derive(Clone, Debug, PartialEq, Eq, Hash, serde::Serialize, serde::Deserialize)]
pub struct Prop {
    pub id: u8,
    pub val: PVal,
}

impl Prop {
    pub fn u8(id: u8, v: u8) -> Prop {
        Prop { id, val: PVal::U8(v) }
    }
    pub fn u16(id: u8, v: u16) -> Prop {
        Prop { id, val: PVal::U16(v) }
    }
    pub fn u32(id: u8, v: u32) -> Prop {
        Prop { id, val: PVal::U32(v) }
    }
}

/// Property identifiers (spec table 2-4), transcribed from the OASIS text.
pub mod pid {
    pub const PAYLOAD_FORMAT_INDICATOR: u8 = 1;
    pub const MESSAGE_EXPIRY_INTERVAL: u8 = 2;
    pub const CONTENT_TYPE: u8 = 3;
    pub const RESPONSE_TOPIC: u8 = 8;
    pub const CORRELATION_DATA: u8 = 9;
    pub const SUBSCRIPTION_IDENTIFIER: u8 = 11;
    pub const SESSION_EXPIRY_INTERVAL: u8 = 17;
    pub const ASSIGNED_CLIENT_IDENTIFIER: u8 = 18;
    pub const SERVER_KEEP_ALIVE: u8 = 19;
    pub const AUTHENTICATION_METHOD: u8 = 21;
    pub const AUTHENTICATION_DATA: u8 = 22;
    pub const REQUEST_PROBLEM_INFORMATION: u8 = 23;
    pub const WILL_DELAY_INTERVAL: u8 = 24;
    pub const REQUEST_RESPONSE_INFORMATION: u8 = 25;
    pub const RESPONSE_INFORMATION: u8 = 26;
    pub const SERVER_REFERENCE: u8 = 28;
    pub const REASON_STRING: u8 = 31;
    pub const RECEIVE_MAXIMUM: u8 = 33;
    pub const TOPIC_ALIAS_MAXIMUM: u8 = 34;
    pub const TOPIC_ALIAS: u8 = 35;
    pub const MAXIMUM_QOS: u8 = 36;
    pub const RETAIN_AVAILABLE: u8 = 37;
    pub const USER_PROPERTY: u8 = 38;
    pub const MAXIMUM_PACKET_SIZE: u8 = 39;
    pub const WILDCARD_SUBSCRIPTION_AVAILABLE: u8 = 40;
    pub const SUBSCRIPTION_IDENTIFIER_AVAILABLE: u8 = 41;
    pub const SHARED_SUBSCRIPTION_AVAILABLE: u8 = 42;
}

/// Property-carrying locations
#[derive(Clone, Copy, Debug, PartialEq, Eq, Hash, PartialOrd, Ord, serde::Serialize, serde::Deserialize)]
pub enum Loc {
    Connect,
    Will,
    Connack,
    Publish,
    Puback,
    Pubrec,
    Pubrel,
    Pubcomp,
    Subscribe,
    Suback,
    Unsubscribe,
    Unsuback,
    Disconnect,
    Auth,
}

pub const ALL_LOCS: [Loc; 14] = [
    Loc::Connect,
    Loc::Will,
    Loc::Connack,
    Loc::Publish,
    Loc::Puback,
    Loc::Pubrec,
    Loc::Pubrel,
    Loc::Pubcomp,
    Loc::Subscribe,
    Loc::Suback,
    Loc::Unsubscribe,
    Loc::Unsuback,
    Loc::Disconnect,
    Loc::Auth,
];

pub struct PropSpec {
    pub id: u8,
    pub name: &'static str,
    pub ty: PT,
    pub locs: &'static [Loc],
    /// locations where the property may appear more than once
    pub multi: &'static [Loc],
}

use Loc::*;
const ALL14: &[Loc] = &ALL_LOCS;

/// MQTT v5.0 table 2-4 (property, type, packets in which it may appear), plus multiplicity.
pub const PROP_TABLE: [PropSpec; 27] = [
    PropSpec { id: 1, name: "PayloadFormatIndicator", ty: PT::Byte, locs: &[Publish, Will], multi: &[] },
    PropSpec { id: 2, name: "MessageExpiryInterval", ty: PT::U32, locs: &[Publish, Will], multi: &[] },
    PropSpec { id: 3, name: "ContentType", ty: PT::Str, locs: &[Publish, Will], multi: &[] },
    PropSpec { id: 8, name: "ResponseTopic", ty: PT::Str, locs: &[Publish, Will], multi: &[] },
    PropSpec { id: 9, name: "CorrelationData", ty: PT::Bin, locs: &[Publish, Will], multi: &[] },
    PropSpec { id: 11, name: "SubscriptionIdentifier", ty: PT::Vbi, locs: &[Publish, Subscribe], multi: &[Publish] },
    PropSpec { id: 17, name: "SessionExpiryInterval", ty: PT::U32, locs: &[Connect, Connack, Disconnect], multi: &[] },
    PropSpec { id: 18, name: "AssignedClientIdentifier", ty: PT::Str, locs: &[Connack], multi: &[] },
    PropSpec { id: 19, name: "ServerKeepAlive", ty: PT::U16, locs: &[Connack], multi: &[] },
    PropSpec { id: 21, name: "AuthenticationMethod", ty: PT::Str, locs: &[Connect, Connack, Auth], multi: &[] },
    PropSpec { id: 22, name: "AuthenticationData", ty: PT::Bin, locs: &[Connect, Connack, Auth], multi: &[] },
    PropSpec { id: 23, name: "RequestProblemInformation", ty: PT::Byte, locs: &[Connect], multi: &[] },
    PropSpec { id: 24, name: "WillDelayInterval", ty: PT::U32, locs: &[Will], multi: &[] },
    PropSpec { id: 25, name: "RequestResponseInformation", ty: PT::Byte, locs: &[Connect], multi: &[] },
    PropSpec { id: 26, name: "ResponseInformation", ty: PT::Str, locs: &[Connack], multi: &[] },
    PropSpec { id: 28, name: "ServerReference", ty: PT::Str, locs: &[Connack, Disconnect], multi: &[] },
    PropSpec { id: 31, name: "ReasonString", ty: PT::Str, locs: &[Connack, Puback, Pubrec, Pubrel, Pubcomp, Suback, Unsuback, Disconnect, Auth], multi: &[] },
    PropSpec { id: 33, name: "ReceiveMaximum", ty: PT::U16, locs: &[Connect, Connack], multi: &[] },
    PropSpec { id: 34, name: "TopicAliasMaximum", ty: PT::U16, locs: &[Connect, Connack], multi: &[] },
    PropSpec { id: 35, name: "TopicAlias", ty: PT::U16, locs: &[Publish], multi: &[] },
    PropSpec { id: 36, name: "MaximumQoS", ty: PT::Byte, locs: &[Connack], multi: &[] },
    PropSpec { id: 37, name: "RetainAvailable", ty: PT::Byte, locs: &[Connack], multi: &[] },
    PropSpec { id: 38, name: "UserProperty", ty: PT::Pair, locs: ALL14, multi: ALL14 },
    PropSpec { id: 39, name: "MaximumPacketSize", ty: PT::U32, locs: &[Connect, Connack], multi: &[] },
    PropSpec { id: 40, name: "WildcardSubscriptionAvailable", ty: PT::Byte, locs: &[Connack], multi: &[] },
    PropSpec { id: 41, name: "SubscriptionIdentifierAvailable", ty: PT::Byte, locs: &[Connack], multi: &[] },
    PropSpec { id: 42, name: "SharedSubscriptionAvailable", ty: PT::Byte, locs: &[Connack], multi: &[] },
];

pub fn prop_spec(id: u8) -> Option<&'static PropSpec> {
    PROP_TABLE.iter().find(|s| s.id == id)
}

/// Value rule of the specification for one property value (true = allowed).
pub fn prop_value_ok(p: &Prop) -> bool {
    use pid::*;
    match (&p.val, p.id) {
        (PVal::U8(v), PAYLOAD_FORMAT_INDICATOR)
        | (PVal::U8(v), REQUEST_PROBLEM_INFORMATION)
        | (PVal::U8(v), REQUEST_RESPONSE_INFORMATION)
        | (PVal::U8(v), MAXIMUM_QOS)
        | (PVal::U8(v), RETAIN_AVAILABLE)
        | (PVal::U8(v), WILDCARD_SUBSCRIPTION_AVAILABLE)
        | (PVal::U8(v), SUBSCRIPTION_IDENTIFIER_AVAILABLE)
        | (PVal::U8(v), SHARED_SUBSCRIPTION_AVAILABLE) => *v <= 1,
        (PVal::U16(v), RECEIVE_MAXIMUM) | (PVal::U16(v), TOPIC_ALIAS) => *v != 0,
        (PVal::U32(v), MAXIMUM_PACKET_SIZE) => *v != 0,
        (PVal::Vbi(v), SUBSCRIPTION_IDENTIFIER) => *v != 0 && *v <= 268_435_455,
        _ => true,
    }
}

#[derive(Clone, Debug, PartialEq, Eq, Hash, serde::Serialize, serde::Deserialize)]
pub struct Will {
    pub topic: String,
    #[serde(with = "hexser")]
    pub payload: Vec<u8>,
    pub qos: u8,
    pub retain: bool,
    pub props: Vec<Prop>,
}

#[derive(Clone, Copy, Debug, PartialEq, Eq, Hash, PartialOrd, Ord, serde::Serialize, serde::Deserialize)]
pub enum AckKind {
    Puback,
    Pubrec,
    Pubrel,
    Pubcomp,
}

impl AckKind {
    pub fn type_nibble(self) -> u8 {
        match self {
            AckKind::Puback => 4,
            AckKind::Pubrec => 5,
            AckKind::Pubrel => 6,
            AckKind::Pubcomp => 7,
        }
    }
    pub fn loc(self) -> Loc {
        match self {
            AckKind::Puback => Loc::Puback,
            AckKind::Pubrec => Loc::Pubrec,
            AckKind::Pubrel => Loc::Pubrel,
            AckKind::Pubcomp => Loc::Pubcomp,
        }
    }
    pub fn name(self) -> &'static str {
        match self {
            AckKind::Puback => "PUBACK",
            AckKind::Pubrec => "PUBREC",
            AckKind::Pubrel => "PUBREL",
            AckKind::Pubcomp => "PUBCOMP",
        }
    }
}

pub const ALL_ACKS: [AckKind; 4] = [AckKind::Puback, AckKind::Pubrec, AckKind::Pubrel, AckKind::Pubcomp];

#[derive(Clone, Debug, PartialEq, Eq, Hash, serde::Serialize, serde::Deserialize)]
pub enum AP {
    Connect {
        v: V,
        clean: bool,
        keep_alive: u16,
        client_id: String,
        will: Option<Will>,
        user: Option<String>,
        pass: Option<Vec<u8>>,
        props: Vec<Prop>,
    },
    Connack {
        v: V,
        sp: bool,
        code: u8,
        props: Vec<Prop>,
    },
    Publish {
        v: V,
        dup: bool,
        qos: u8,
        retain: bool,
        topic: String,
        pid: Option<u32>,
        props: Vec<Prop>,
        #[serde(with = "hexser")]
        payload: Vec<u8>,
    },
    Ack {
        v: V,
        kind: AckKind,
        pid: u32,
        rc: Option<u8>,
        props: Option<Vec<Prop>>,
    },
    Subscribe {
        v: V,
        pid: u32,
        props: Vec<Prop>,
        /// (topic filter, subscription options byte)
        entries: Vec<(String, u8)>,
    },
    Suback {
        v: V,
        pid: u32,
        props: Vec<Prop>,
        codes: Vec<u8>,
    },
    Unsubscribe {
        v: V,
        pid: u32,
        props: Vec<Prop>,
        topics: Vec<String>,
    },
    Unsuback {
        v: V,
        pid: u32,
        props: Vec<Prop>,
        codes: Vec<u8>,
    },
    Pingreq {
        v: V,
    },
    Pingresp {
        v: V,
    },
    Disconnect {
        v: V,
        rc: Option<u8>,
        props: Option<Vec<Prop>>,
    },
    Auth {
        rc: Option<u8>,
        props: Option<Vec<Prop>>,
    },
}

impl AP {
    pub fn version(&self) -> V {
        match self {
            AP::Connect { v, .. }
            | AP::Connack { v, .. }
            | AP::Publish { v, .. }
            | AP::Ack { v, .. }
            | AP::Subscribe { v, .. }
            | AP::Suback { v, .. }
            | AP::Unsubscribe { v, .. }
            | AP::Unsuback { v, .. }
            | AP::Pingreq { v }
            | AP::Pingresp { v }
            | AP::Disconnect { v, .. } => *v,
            AP::Auth { .. } => V::V5,
        }
    }

    /// Control packet type (high nibble of the first byte), spec table 2-1.
    pub fn type_nibble(&self) -> u8 {
        match self {
            AP::Connect { .. } => 1,
            AP::Connack { .. } => 2,
            AP::Publish { .. } => 3,
            AP::Ack { kind, .. } => kind.type_nibble(),
            AP::Subscribe { .. } => 8,
            AP::Suback { .. } => 9,
            AP::Unsubscribe { .. } => 10,
            AP::Unsuback { .. } => 11,
            AP::Pingreq { .. } => 12,
            AP::Pingresp { .. } => 13,
            AP::Disconnect { .. } => 14,
            AP::Auth { .. } => 15,
        }
    }

    pub fn kind_name(&self) -> &'static str {
        match self {
            AP::Connect { .. } => "CONNECT",
            AP::Connack { .. } => "CONNACK",
            AP::Publish { .. } => "PUBLISH",
            AP::Ack { kind, .. } => kind.name(),
            AP::Subscribe { .. } => "SUBSCRIBE",
            AP::Suback { .. } => "SUBACK",
            AP::Unsubscribe { .. } => "UNSUBSCRIBE",
            AP::Unsuback { .. } => "UNSUBACK",
            AP::Pingreq { .. } => "PINGREQ",
            AP::Pingresp { .. } => "PINGRESP",
            AP::Disconnect { .. } => "DISCONNECT",
            AP::Auth { .. } => "AUTH",
        }
    }

    pub fn packet_id(&self) -> Option<u32> {
        match self {
            AP::Publish { pid, .. } => *pid,
            AP::Ack { pid, .. }
            | AP::Subscribe { pid, .. }
            | AP::Suback { pid, .. }
            | AP::Unsubscribe { pid, .. }
            | AP::Unsuback { pid, .. } => Some(*pid),
            _ => None,
        }
    }

    pub fn props(&self) -> &[Prop] {
        match self {
            AP::Connect { props, .. }
            | AP::Connack { props, .. }
            | AP::Publish { props, .. }
            | AP::Subscribe { props, .. }
            | AP::Suback { props, .. }
            | AP::Unsubscribe { props, .. }
            | AP::Unsuback { props, .. } => props,
            AP::Ack { props, .. } | AP::Disconnect { props, .. } | AP::Auth { props, .. } => {
                props.as_deref().unwrap_or(&[])
            }
            _ => &[],
        }
    }

    pub fn prop_u16(&self, id: u8) -> Option<u16> {
        self.props().iter().find_map(|p| match (&p.val, p.id == id) {
            (PVal::U16(v), true) => Some(*v),
            _ => None,
        })
    }
    pub fn prop_u32(&self, id: u8) -> Option<u32> {
        self.props().iter().find_map(|p| match (&p.val, p.id == id) {
            (PVal::U32(v), true) => Some(*v),
            _ => None,
        })
    }

    /// short one-line rendering for samples / replay files
    pub fn brief(&self) -> String {
        match self {
            AP::Publish { v, dup, qos, retain, topic, pid, props, payload } => format!(
                "PUBLISH[{}] q{} d{} r{} t={:?} id={:?} props={} pl={}B",
                v.name(),
                qos,
                *dup as u8,
                *retain as u8,
                trunc(topic),
                pid,
                props_brief(props),
                payload.len()
            ),
            AP::Ack { v, kind, pid, rc, props } => format!(
                "{}[{}] id={} rc={:?} props={}",
                kind.name(),
                v.name(),
                pid,
                rc,
                props.as_ref().map(|p| props_brief(p)).unwrap_or_else(|| "-".into())
            ),
            AP::Connect { v, clean, keep_alive, client_id, will, user, pass, props } => format!(
                "CONNECT[{}] clean={} ka={} cid={:?} will={} user={} pass={} props={}",
                v.name(),
                clean,
                keep_alive,
                trunc(client_id),
                will.is_some(),
                user.is_some(),
                pass.is_some(),
                props_brief(props)
            ),
            AP::Connack { v, sp, code, props } => {
                format!("CONNACK[{}] sp={} code={:#x} props={}", v.name(), sp, code, props_brief(props))
            }
            AP::Subscribe { v, pid, props, entries } => format!(
                "SUBSCRIBE[{}] id={} n={} props={}",
                v.name(),
                pid,
                entries.len(),
                props_brief(props)
            ),
            AP::Suback { v, pid, props, codes } => {
                format!("SUBACK[{}] id={} codes={:?} props={}", v.name(), pid, codes, props_brief(props))
            }
            AP::Unsubscribe { v, pid, props, topics } => format!(
                "UNSUBSCRIBE[{}] id={} n={} props={}",
                v.name(),
                pid,
                topics.len(),
                props_brief(props)
            ),
            AP::Unsuback { v, pid, props, codes } => {
                format!("UNSUBACK[{}] id={} codes={:?} props={}", v.name(), pid, codes, props_brief(props))
            }
            AP::Pingreq { v } => format!("PINGREQ[{}]", v.name()),
            AP::Pingresp { v } => format!("PINGRESP[{}]", v.name()),
            AP::Disconnect { v, rc, props } => format!(
                "DISCONNECT[{}] rc={:?} props={}",
                v.name(),
                rc,
                props.as_ref().map(|p| props_brief(p)).unwrap_or_else(|| "-".into())
            ),
            AP::Auth { rc, props } => format!(
                "AUTH rc={:?} props={}",
                rc,
                props.as_ref().map(|p| props_brief(p)).unwrap_or_else(|| "-".into())
            ),
        }
    }
}

fn trunc(s: &str) -> String {
    if s.len() <= 24 {
        s.to_string()
    } else {
        let mut end = 24;
        while !s.is_char_boundary(end) {
            end -= 1;
        }
        format!("{}…({}B)", &s[..end], s.len())
    }
}

pub fn props_brief(p: &[Prop]) -> String {
    let mut s = String::from("[");
    for (i, x) in p.iter().enumerate() {
        if i > 0 {
            s.push(',');
        }
        let name = prop_spec(x.id).map(|s| s.name).unwrap_or("?");
        match &x.val {
            PVal::U8(v) => s.push_str(&format!("{}={}", name, v)),
            PVal::U16(v) => s.push_str(&format!("{}={}", name, v)),
            PVal::U32(v) => s.push_str(&format!("{}={}", name, v)),
            PVal::Vbi(v) => s.push_str(&format!("{}={}", name, v)),
            PVal::Str(v) => s.push_str(&format!("{}={}B", name, v.len())),
            PVal::Bin(v) => s.push_str(&format!("{}={}B", name, v.len())),
            PVal::Pair(k, v) => s.push_str(&format!("{}={}B/{}B", name, k.len(), v.len())),
        }
    }
    s.push(']');
    s
}

/// Vec<u8> as a hex string in replay files
pub mod hexser {
    use serde::{Deserialize, Deserializer, Serializer};
    pub fn serialize<S: Serializer>(b: &Vec<u8>, s: S) -> Result<S::Ok, S::Error> {
        s.serialize_str(&crate::util::hex(b))
    }
    pub fn deserialize<'de, D: Deserializer<'de>>(d: D) -> Result<Vec<u8>, D::Error> {
        let s = String::deserialize(d)?;
        crate::util::unhex(&s).ok_or_else(|| serde::de::Error::custom("bad hex"))
    }
}
