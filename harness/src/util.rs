//! Small helpers: stable hashing, hex, panic capture.

use std::hash::{Hash, Hasher};
use std::panic::{catch_unwind, AssertUnwindSafe};
use std::sync::Once;

/// Deterministic 64-bit hash (SipHash with fixed keys).
pub fn h64<T: Hash + ?Sized>(x: &T) -> u64 {
    #[allow(deprecated)]
    let mut h = std::hash::SipHasher::new_with_keys(0x7665_7269_6600_0001, 0x6d71_7474_0000_0002);
    x.hash(&mut h);
    h.finish()
}

pub fn mix(a: u64, b: u64) -> u64 {
    h64(&(a, b))
}

pub fn hex(b: &[u8]) -> String {
    let mut s = String::with_capacity(b.len() * 2);
    for x in b {
        s.push_str(&format!("{x:02x}"));
    }
    s
}

pub fn unhex(s: &str) -> Option<Vec<u8>> {
    if s.len() % 2 != 0 {
        return None;
    }
    (0..s.len() / 2).map(|i| u8::from_str_radix(&s[2 * i..2 * i + 2], 16).ok()).collect()
}

pub fn hex_trunc(b: &[u8], n: usize) -> String {
    if b.len() <= n {
        hex(b)
    } else {
        format!("{}…({}B)", hex(&b[..n]), b.len())
    }
}

static HOOK: Once = Once::new();

thread_local! {
    static LAST_PANIC: std::cell::RefCell<Option<String>> = const { std::cell::RefCell::new(None) };
}

/// Install a panic hook that records the message and location thread-locally instead of printing.
pub fn quiet_panics() {
    HOOK.call_once(|| {
        std::panic::set_hook(Box::new(|info| {
            let msg = if let Some(s) = info.payload().downcast_ref::<&str>() {
                s.to_string()
            } else if let Some(s) = info.payload().downcast_ref::<String>() {
                s.clone()
            } else {
                "<non-string panic>".to_string()
            };
            let loc = info.location().map(|l| format!("{}:{}", l.file(), l.line())).unwrap_or_default();
            LAST_PANIC.with(|p| *p.borrow_mut() = Some(format!("{msg} @ {loc}")));
        }));
    });
}

/// Run `f`, converting a panic into Err(message @ file:line).
pub fn catch<R>(f: impl FnOnce() -> R) -> Result<R, String> {
    quiet_panics();
    match catch_unwind(AssertUnwindSafe(f)) {
        Ok(r) => Ok(r),
        Err(_) => Err(LAST_PANIC.with(|p| p.borrow_mut().take()).unwrap_or_else(|| "panic".into())),
    }
}

/// Panic location "file:line" only (signature part of a panic message)
pub fn panic_site(msg: &str) -> String {
    match msg.rfind(" @ ") {
        Some(i) => {
            let loc = &msg[i + 3..];
            // strip any absolute prefix up to "src/"
            match loc.find("src/") {
                Some(j) => loc[j..].to_string(),
                None => loc.to_string(),
            }
        }
        None => "?".into(),
    }
}
