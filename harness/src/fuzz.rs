//! Entry functions of the coverage-guided fuzz targets (harness/fuzz). The semantic oracle sits
//! inside the target: the same Rust functions that the proptest checks call. Bytes are decoded
//! into structured arguments so that coverage feedback steers the history, not input validation.

use crate::ap::*;
use crate::checks::{c04, c05, c06, c07, c08, c09, c12, c13, c14, c15, c19};
use crate::conn::*;
use crate::engine::{Fail, Stats, R};
use crate::hist::History;
use crate::scn::*;

/// tiny cursor over fuzz bytes (no external crate needed)
pub struct U<'a> {
    d: &'a [u8],
    i: usize,
}

impl<'a> U<'a> {
    pub fn new(d: &'a [u8]) -> U<'a> {
        U { d, i: 0 }
    }
    pub fn done(&self) -> bool {
        self.i >= self.d.len()
    }
    pub fn u8(&mut self) -> u8 {
        let b = self.d.get(self.i).copied().unwrap_or(0);
        self.i += 1;
        b
    }
    pub fn u16(&mut self) -> u16 {
        ((self.u8() as u16) << 8) | self.u8() as u16
    }
    pub fn bool(&mut self) -> bool {
        self.u8() & 1 == 1
    }
    pub fn pick<T: Clone>(&mut self, xs: &[T]) -> T {
        xs[self.u8() as usize % xs.len()].clone()
    }
    pub fn rest(&mut self) -> &'a [u8] {
        let r = &self.d[self.i.min(self.d.len())..];
        self.i = self.d.len();
        r
    }
    pub fn take(&mut self, n: usize) -> &'a [u8] {
        let s = self.i.min(self.d.len());
        let e = (s + n).min(self.d.len());
        self.i = e;
        &self.d[s..e]
    }
}

/// C04: first byte selects the parser, the rest is its input
pub fn decode_target(data: &[u8]) -> R {
    if data.is_empty() {
        return Ok(());
    }
    let parsers = c04::all_parsers();
    let n = parsers.len() + c04::ALL_SUBS.len();
    let k = data[0] as usize % n;
    let body = &data[1..];
    if k < parsers.len() {
        c04::check_parse_dyn(parsers[k], body).map(|_| ())
    } else {
        c04::check_sub(c04::ALL_SUBS[k - parsers.len()], body).map(|_| ())
    }
}

/// C09: [cfg byte][n cuts][cut selectors...][stream bytes]
pub fn chunk_target(data: &[u8]) -> R {
    let mut u = U::new(data);
    if data.len() < 3 {
        return Ok(());
    }
    let role = u.pick(&[Role::Client, Role::Server, Role::Any]);
    let v = u.pick(&[V::V311, V::V5]);
    let ncuts = (u.u8() % 8) as usize;
    let sels: Vec<u16> = (0..ncuts).map(|_| u.u16()).collect();
    let stream = u.rest().to_vec();
    if stream.is_empty() || stream.len() > 4096 {
        return Ok(());
    }
    let cuts = c09::resolve_cuts(&c09::Cuts::At(sels), &stream);
    c09::check_feed(&stream, &cuts)?;
    let case = c09::StreamCase { cfg: ConnCfg { role, ver: CVer::of(v), idw: 2 }, v, items: vec![], cuts: c09::Cuts::Exact(cuts.clone()) };
    c09::check_conn(&case, &stream, &cuts)
}

fn hs_props(u: &mut U) -> HsProps {
    HsProps {
        rm: u.pick(&[None, Some(1u16), Some(2), Some(65535)]),
        tam: u.pick(&[None, Some(0u16), Some(1), Some(5)]),
        mps: u.pick(&[None, Some(1u32), Some(8), Some(40), Some(100_000)]),
        sei: u.pick(&[None, Some(0u32), Some(300)]),
        ska: u.pick(&[None, Some(0u16), Some(7)]),
    }
}

fn sel(u: &mut U) -> Sel {
    match u.u8() % 5 {
        0 | 1 => Sel::LiveOnly(u.u16()),
        4 => Sel::Live(u.u16()),
        2 => Sel::Wrong(u.u16()),
        _ => Sel::Arb(u.pick(&[0u32, 1, 2, 3, 65535, u32::MAX])),
    }
}

fn alias(u: &mut U) -> AliasMode {
    match u.u8() % 6 {
        0 | 1 => AliasMode::None,
        2 | 3 => AliasMode::Bind((u.u8() % 5) as u16),
        4 => AliasMode::UseLive(u.u16()),
        _ => AliasMode::Use((u.u8() % 5) as u16),
    }
}

/// which part of the history space a check's oracle is defined on (mirrors the check's own proptest strategy)
#[derive(Clone, Copy)]
pub struct Domain {
    pub hostile: bool,
    pub undetermined: bool,
    pub v5_only: bool,
    /// local publishes may use an alias with an empty topic (only the checks whose model resolves aliases: C13, and the monitors)
    pub alias_use: bool,
    /// the check's own generator profile (op classes with weight 0 are dropped)
    pub profile: Option<crate::hist::Profile>,
}

/// decode bytes into a connection history over the op alphabet of scn.rs
pub fn decode_history(data: &[u8]) -> History {
    decode_history_in(data, Domain { hostile: true, undetermined: true, v5_only: false, alias_use: true, profile: None })
}

pub fn decode_history_in(data: &[u8], dom: Domain) -> History {
    let mut u = U::new(data);
    let role = u.pick(&[Role::Client, Role::Server, Role::Any]);
    let ver = u.pick(&[CVer::V311, CVer::V5, CVer::V5, CVer::Undetermined]);
    let ver = if ver == CVer::Undetermined && (role == Role::Client || !dom.undetermined) { CVer::V5 } else { ver };
    let ver = if dom.v5_only { CVer::V5 } else { ver };
    let idw = u.pick(&[2usize, 2, 2, 4]);
    let cfg = ConnCfg { role, ver, idw };
    let mut ops = Vec::new();
    while !u.done() && ops.len() < 80 {
        let op = match u.u8() % 32 {
            0 => Op::Connect(ConnectArgs { clean: u.bool(), keep_alive: u.pick(&[0u16, 1, 10]), p: HsProps { ska: None, ..hs_props(&mut u) } }),
            1 => Op::PeerConnack(ConnackArgs { sp: u.bool(), fail: u.pick(&[0u8, 0, 0, 1]), p: hs_props(&mut u) }),
            2 => Op::PeerConnect(ConnectArgs { clean: u.bool(), keep_alive: u.pick(&[0u16, 1, 10]), p: HsProps { ska: None, ..hs_props(&mut u) } }),
            3 => Op::Connack(ConnackArgs { sp: u.bool(), fail: u.pick(&[0u8, 0, 0, 1]), p: hs_props(&mut u) }),
            4 | 5 => Op::Publish { qos: u.u8() % 3, topic: u.u8() % 4, alias: alias(&mut u), plen: u.pick(&[0u8, 1, 2, 3, 4, 5, 30, 36, 42, 48]), retain: u.bool(), id: u.pick(&[IdSrc::Acquire, IdSrc::Acquire, IdSrc::Held(0), IdSrc::Free(7)]) },
            6 | 7 => Op::PeerPublish { qos: u.u8() % 3, id: sel(&mut u), dup: u.bool(), topic: u.u8() % 4, alias: alias(&mut u), plen: u.u8() % 6 },
            8 => Op::Ack { kind: u.pick(&ALL_ACKS), sel: sel(&mut u), rc: u.pick(&[0u8, 0, 1, 2, 3, 17, 33, 50]) },
            9 | 10 => Op::PeerAck { kind: u.pick(&ALL_ACKS), sel: sel(&mut u), rc: u.u8() % 4 },
            11 => Op::Subscribe { id: IdSrc::Acquire, n: u.u8() % 3 },
            12 => Op::Unsubscribe { id: IdSrc::Acquire, n: u.u8() % 3 },
            13 => Op::PeerSuback { sel: sel(&mut u) },
            14 => Op::PeerUnsuback { sel: sel(&mut u) },
            15 => Op::PeerSubscribe { id: (u.u8() % 6) as u32, n: u.u8() % 3 },
            16 => Op::Suback { sel: sel(&mut u) },
            17 => u.pick(&[Op::Pingreq, Op::Pingresp, Op::PeerPingreq, Op::PeerPingresp]),
            18 => Op::Disconnect { rc: u.pick(&[0u8, 0, 1, 2, 3, 20, 28, 30]) },
            19 => Op::PeerDisconnect { rc: u.u8() % 4 },
            20 => u.pick(&[Op::AcquireId, Op::RegisterId { v: 0 }, Op::RegisterId { v: 1 }, Op::RegisterId { v: 65535 }]),
            21 => Op::ReleaseId { sel: sel(&mut u) },
            22 => Op::Erase { sel: sel(&mut u) },
            23 => Op::SetOpt(match u.u8() % 7 {
                0 => Opt::AutoPub(u.bool()),
                1 => Opt::AutoPing(u.bool()),
                2 => Opt::AutoMap(u.bool()),
                3 => Opt::AutoReplace(u.bool()),
                4 => Opt::Offline(u.bool()),
                5 => Opt::PingrespTimeout(u.pick(&[0u64, 5000])),
                _ => Opt::PingInterval(u.pick(&[None, Some(0u64), Some(3000)])),
            }),
            24 => Op::Fire(u.pick(&ALL_TK)),
            25 => Op::Closed,
            26 => Op::Chunk(u.pick(&[0u8, 1, 2, 3, 7])),
            27 => Op::Auth { rc: u.u8() % 3 },
            28 => Op::PeerAuth { rc: u.u8() % 3 },
            29 if !dom.hostile => Op::PeerUnsubscribe { id: (u.u8() % 6) as u32, n: u.u8() % 3 },
            30 if !dom.hostile => Op::Unsuback { sel: sel(&mut u) },
            31 if !dom.hostile => Op::PeerPublish { qos: 2, id: sel(&mut u), dup: true, topic: u.u8() % 4, alias: AliasMode::None, plen: u.u8() % 6 },
            _ => {
                let n = (u.u8() % 24) as usize + 1;
                Op::PeerRaw(u.take(n).to_vec())
            }
        };
        ops.push(op);
    }
    // the op classes a check's own generator never produces (weight 0 in its profile) are outside the domain its model
    // was written for: they are dropped here as well
    if let Some(p) = dom.profile {
        ops.retain(|op| match op {
            Op::AcquireId | Op::RegisterId { .. } | Op::ReleaseId { .. } => p.ids > 0,
            Op::Erase { .. } => p.erase > 0,
            Op::Subscribe { .. } | Op::Unsubscribe { .. } | Op::Suback { .. } | Op::Unsuback { .. } | Op::PeerSubscribe { .. } | Op::PeerUnsubscribe { .. } | Op::PeerSuback { .. } | Op::PeerUnsuback { .. } => p.sub > 0,
            Op::Pingreq | Op::Pingresp | Op::PeerPingreq | Op::PeerPingresp => p.ping > 0,
            Op::Auth { .. } | Op::PeerAuth { .. } => p.auth > 0,
            Op::Fire(_) => p.timers > 0,
            Op::SetOpt(_) => p.opts > 0,
            Op::Chunk(_) => p.chunk > 0,
            _ => true,
        });
    }
    if !dom.alias_use {
        for op in ops.iter_mut() {
            if let Op::Publish { alias, .. } = op {
                if matches!(alias, AliasMode::Use(_) | AliasMode::UseLive(_)) {
                    *alias = AliasMode::None;
                }
            }
        }
    }
    History { cfg, ops, disciplined: !dom.hostile }
}

/// the history-level checks that can sit behind the connection fuzz target, with their domains
pub const CONN_CHECKS: [&str; 10] = ["C05", "C06", "C07", "C08", "C12", "C13", "C14", "C15", "C19", "ALL"];

fn domain_of(check: &str) -> Domain {
    let (hostile, undetermined, v5_only, profile) = match check {
        "C05" => (true, true, false, c05::profile()),
        "C19" => (true, true, false, c19::profile()),
        "C08" => (false, true, false, c08::profile()),
        "C15" => (false, true, false, c15::profile()),
        "C12" => (false, false, true, c12::profile()),
        "C13" => (false, false, true, c13::profile()),
        "C14" => (false, false, true, c14::profile()),
        "C07" => (false, false, false, c07::profile()),
        _ => (false, false, false, c06::profile()),
    };
    Domain { hostile, undetermined, v5_only, alias_use: profile.alias_use, profile: Some(profile) }
}

/// the history is decoded from the bytes; the monitor / model of the selected property decides
pub fn conn_target_for(check: &str, data: &[u8]) -> R {
    if data.len() < 4 {
        return Ok(());
    }
    let h = decode_history_in(data, domain_of(check));
    let mut st = Stats::default();
    match check {
        "C05" => c05::test(&h, &mut st),
        "C06" => c06::test(&h, &mut st),
        "C07" => c07::test(&h, &mut st),
        "C08" => c08::test(&h, &mut st),
        "C12" => c12::test(&h, &mut st),
        "C13" => c13::test(&h, &mut st),
        "C14" => c14::test(&h, &mut st).and_then(|_| {
            // the late-frame rule holds whatever the peer does: the same decoded history without the handshake discipline,
            // frames still arriving after a close request
            let mut free = h.clone();
            free.disciplined = false;
            c14::test_late(&free, &mut st)
        }),
        "C15" => c15::test(&h, &mut st),
        "C19" => c19::test(&h, &mut st),
        _ => Ok(()),
    }
}

/// the property whose oracle the connection target applies: VERIF_FZ_CHECK (default C05)
pub fn selected_check() -> &'static str {
    static SEL: std::sync::OnceLock<String> = std::sync::OnceLock::new();
    SEL.get_or_init(|| std::env::var("VERIF_FZ_CHECK").unwrap_or_else(|_| "C05".into())).as_str()
}

pub fn conn_target(data: &[u8]) -> R {
    conn_target_for(selected_check(), data)
}

/// failures listed as open known findings are tolerated inside the target so that a campaign continues behind them
pub fn tolerated(f: &Fail) -> bool {
    static KNOWN: std::sync::OnceLock<Vec<crate::findings::Finding>> = std::sync::OnceLock::new();
    let k = KNOWN.get_or_init(|| {
        let dir = std::env::var("VERIF_DIR").map(std::path::PathBuf::from).unwrap_or_else(|_| std::path::PathBuf::from("/verif"));
        crate::findings::load(&dir)
    });
    k.iter().any(|k| k.open && k.rule == f.rule && k.sig == f.sig)
}

pub fn run_target(name: &str, data: &[u8]) -> Option<R> {
    match name {
        "fz_decode" => Some(decode_target(data)),
        "fz_chunk" => Some(chunk_target(data)),
        "fz_conn" => Some(conn_target(data)),
        t if t.starts_with("fz_conn:") => Some(conn_target_for(&t[8..], data)),
        _ => None,
    }
}

/// seed corpus: valid encodings / plausible histories written as files
pub fn write_corpus(target: &str, dir: &std::path::Path) -> std::io::Result<usize> {
    use crate::gen;
    use proptest::strategy::{Strategy, ValueTree};
    use proptest::test_runner::{Config, RngAlgorithm, TestRng, TestRunner};
    std::fs::create_dir_all(dir)?;
    let mut runner = TestRunner::new_with_rng(Config::default(), TestRng::from_seed(RngAlgorithm::ChaCha, &[7u8; 32]));
    let mut n = 0;
    match target {
        "fz_decode" => {
            let parsers = c04::all_parsers();
            let o = gen::GenOpts { big: false, beyond_spec: true };
            for (k, p) in parsers.iter().enumerate() {
                for _ in 0..3 {
                    let ap = gen::any_packet(p.v, p.idw, o).new_tree(&mut runner).unwrap().current();
                    if ap.type_nibble() != p.first >> 4 {
                        continue;
                    }
                    let bytes = crate::refcodec::encode(&ap, p.idw);
                    let (frames, _) = crate::refcodec::frame(&bytes);
                    if let crate::refcodec::Frame::Complete { body, .. } = &frames[0] {
                        let mut f = vec![k as u8];
                        f.extend_from_slice(body);
                        std::fs::write(dir.join(format!("seed_{n:04}")), f)?;
                        n += 1;
                    }
                }
            }
            // make sure every parser index has at least a tiny seed
            for k in 0..(parsers.len() + c04::ALL_SUBS.len()) {
                std::fs::write(dir.join(format!("idx_{k:03}")), [k as u8, 0, 1, 0, 0])?;
                n += 1;
            }
        }
        "fz_chunk" => {
            for i in 0..60 {
                let c = c09::case_strategy(false).new_tree(&mut runner).unwrap().current();
                let stream = c09::encode_items(&c.items, c.v, 2);
                if stream.len() > 600 {
                    continue;
                }
                let mut f = vec![i as u8, (i / 3) as u8, 3, 0x10, 0x00, 0x80, 0x00, 0xf0, 0x00];
                f.extend_from_slice(&stream);
                std::fs::write(dir.join(format!("seed_{n:04}")), f)?;
                n += 1;
            }
        }
        "fz_conn" => {
            // handshake prefixes for each role so that the fuzzer starts from connected states
            let seeds: Vec<Vec<u8>> = vec![
                vec![0, 1, 0, 0, 0, 1, 0, 0, 0, 0, 0, 1, 0, 0, 0, 0, 0, 0, 4, 1, 0, 0, 0, 0, 0, 9, 0, 0, 0, 0],
                vec![1, 1, 0, 2, 0, 1, 0, 0, 0, 0, 0, 3, 0, 0, 0, 0, 0, 0, 0, 6, 2, 3, 1, 0, 0, 0, 0, 8, 1, 0, 0, 0],
                vec![2, 0, 0, 0, 1, 0, 1, 0, 0, 0, 0, 1, 1, 0, 0, 0, 0, 0, 0, 5, 2, 1, 0, 0, 0, 1, 25, 0, 0, 0, 1, 1],
                vec![1, 3, 0, 2, 1, 2, 1, 1, 2, 1, 3, 0, 0, 1, 1, 1, 1, 1, 31, 5, 0x30, 3, 0, 1, 0x61, 25],
            ];
            for s in seeds {
                std::fs::write(dir.join(format!("seed_{n:04}")), s)?;
                n += 1;
            }
        }
        _ => {}
    }
    Ok(n)
}
