//! proptest strategies: strings, binaries, properties, abstract packets of every kind.

use crate::ap::*;
use proptest::collection::vec;
use proptest::prelude::*;
use proptest::sample::select;

/// Lengths on both sides of every length-encoding and small-buffer boundary.
pub const BOUNDARY_LENS: [usize; 17] = [0, 1, 2, 10, 12, 13, 15, 16, 22, 23, 24, 25, 46, 47, 48, 127, 128];
pub const BIG_LENS: [usize; 7] = [255, 256, 16383, 16384, 16385, 65534, 65535];

pub fn len_class(big: bool) -> BoxedStrategy<usize> {
    if big {
        prop_oneof![
            55 => 0usize..10,
            25 => select(BOUNDARY_LENS.to_vec()),
            4 => select(BIG_LENS.to_vec()),
            16 => 10usize..200,
        ]
        .boxed()
    } else {
        prop_oneof![
            60 => 0usize..10,
            25 => select(BOUNDARY_LENS.to_vec()),
            15 => 10usize..200,
        ]
        .boxed()
    }
}

fn fill_ascii(n: usize, salt: u8) -> String {
    (0..n).map(|i| (b'a' + ((i as u32 * 7 + salt as u32) % 26) as u8) as char).collect()
}

/// UTF-8 string of exactly `n` bytes; `style` selects multi-byte content.
pub fn string_of(n: usize, style: u8, salt: u8) -> String {
    let lead: &str = match style % 5 {
        0 | 1 => "",
        2 => "é",
        3 => "€",
        _ => "𝄞",
    };
    if lead.is_empty() || lead.len() > n {
        fill_ascii(n, salt)
    } else {
        let mut s = String::with_capacity(n);
        s.push_str(lead);
        s.push_str(&fill_ascii(n - lead.len(), salt));
        s
    }
}

pub fn mqtt_string(big: bool) -> BoxedStrategy<String> {
    (len_class(big), 0u8..5, any::<u8>()).prop_map(|(n, st, salt)| string_of(n, st, salt)).boxed()
}

/// non-empty string without wildcards
pub fn topic_name(big: bool) -> BoxedStrategy<String> {
    (len_class(big), 0u8..5, any::<u8>())
        .prop_map(|(n, st, salt)| {
            let n = n.max(1);
            let mut b = string_of(n, st, salt).into_bytes();
            // put a level separator at an ASCII position (the fill is ASCII, only the lead may be multi-byte)
            if n >= 6 {
                let k = n - 2;
                if b[k].is_ascii() && b[k - 1].is_ascii() {
                    b[k] = b'/';
                }
            }
            String::from_utf8(b).expect("ascii edit keeps utf-8")
        })
        .boxed()
}

pub fn topic_filter() -> BoxedStrategy<String> {
    prop_oneof![
        4 => topic_name(false),
        1 => Just("#".to_string()),
        1 => Just("+/a".to_string()),
        1 => Just("a/+/b/#".to_string()),
        1 => Just("$SYS/x".to_string()),
        // shared subscriptions (v5.0 §4.8.2): valid ShareName + filter
        2 => proptest::sample::select(vec!["$share/g/a/b", "$share/g/#", "$share/grp/+/x", "$share/g/a"]).prop_map(|s| s.to_string()),
    ]
    .boxed()
}

pub fn binary(big: bool) -> BoxedStrategy<Vec<u8>> {
    (len_class(big), any::<u8>())
        .prop_map(|(n, salt)| (0..n).map(|i| (i as u32 * 31 + salt as u32) as u8).collect())
        .boxed()
}

pub fn payload(big: bool) -> BoxedStrategy<Vec<u8>> {
    if big {
        prop_oneof![
            20 => binary(true),
            1 => (select(vec![65536usize, 70_000, 2_097_151, 2_097_152, 2_097_153]), any::<u8>())
                .prop_map(|(n, salt)| (0..n).map(|i| (i as u32 * 31 + salt as u32) as u8).collect::<Vec<u8>>()),
        ]
        .boxed()
    } else {
        binary(false)
    }
}

pub fn u16_boundary() -> BoxedStrategy<u16> {
    prop_oneof![
        3 => select(vec![1u16, 2, 3, 255, 256, 65534, 65535]),
        1 => any::<u16>(),
    ]
    .boxed()
}

pub fn u32_boundary() -> BoxedStrategy<u32> {
    prop_oneof![
        3 => select(vec![1u32, 2, 127, 128, 255, 256, 65535, 65536, 268_435_455, 268_435_456, u32::MAX - 1, u32::MAX]),
        1 => any::<u32>(),
    ]
    .boxed()
}

/// A *valid* value for property `id` (spec value rules respected).
pub fn prop_value_valid(id: u8, big: bool) -> BoxedStrategy<Prop> {
    let spec = prop_spec(id).expect("known property id");
    match spec.ty {
        PT::Byte => (0u8..=1).prop_map(move |v| Prop { id, val: PVal::U8(v) }).boxed(),
        PT::U16 => {
            if id == pid::RECEIVE_MAXIMUM || id == pid::TOPIC_ALIAS {
                u16_boundary().prop_map(move |v| Prop { id, val: PVal::U16(v) }).boxed()
            } else {
                prop_oneof![Just(0u16), u16_boundary()].prop_map(move |v| Prop { id, val: PVal::U16(v) }).boxed()
            }
        }
        PT::U32 => {
            if id == pid::MAXIMUM_PACKET_SIZE {
                u32_boundary().prop_map(move |v| Prop { id, val: PVal::U32(v) }).boxed()
            } else {
                prop_oneof![Just(0u32), u32_boundary()].prop_map(move |v| Prop { id, val: PVal::U32(v) }).boxed()
            }
        }
        PT::Vbi => select(vec![1u32, 2, 127, 128, 16383, 16384, 2_097_151, 2_097_152, 268_435_455])
            .prop_map(move |v| Prop { id, val: PVal::Vbi(v) })
            .boxed(),
        PT::Str => mqtt_string(big).prop_map(move |s| Prop { id, val: PVal::Str(s) }).boxed(),
        PT::Bin => binary(big).prop_map(move |b| Prop { id, val: PVal::Bin(b) }).boxed(),
        PT::Pair => (mqtt_string(big), mqtt_string(false))
            .prop_map(move |(k, v)| Prop { id, val: PVal::Pair(k, v) })
            .boxed(),
    }
}

/// 0..n properties legal for `loc` (each non-repeatable id at most once; AuthenticationData only with Method).
pub fn props_for(loc: Loc, big: bool) -> BoxedStrategy<Vec<Prop>> {
    let ids: Vec<u8> = PROP_TABLE.iter().filter(|s| s.locs.contains(&loc)).map(|s| s.id).collect();
    let one = select(ids).prop_flat_map(move |id| prop_value_valid(id, big));
    prop_oneof![
        3 => Just(vec![]),
        5 => vec(one.clone(), 1..4),
        2 => vec(one, 4..9),
    ]
    .prop_map(move |ps| normalise_props(loc, ps))
    .boxed()
}

pub fn normalise_props(loc: Loc, ps: Vec<Prop>) -> Vec<Prop> {
    let mut out: Vec<Prop> = Vec::new();
    for p in ps {
        let spec = prop_spec(p.id).unwrap();
        let multi = spec.multi.contains(&loc);
        if multi || !out.iter().any(|q| q.id == p.id) {
            out.push(p);
        }
    }
    // AuthenticationData requires AuthenticationMethod (spec §3.1.2.11.10 / 3.15.2.2.3)
    if out.iter().any(|p| p.id == pid::AUTHENTICATION_DATA) && !out.iter().any(|p| p.id == pid::AUTHENTICATION_METHOD) {
        out.retain(|p| p.id != pid::AUTHENTICATION_DATA);
    }
    out
}

pub fn packet_id(idw: usize) -> BoxedStrategy<u32> {
    if idw == 2 {
        prop_oneof![
            3 => select(vec![1u32, 2, 255, 256, 65534, 65535]),
            1 => 1u32..=65535,
        ]
        .boxed()
    } else {
        prop_oneof![
            3 => select(vec![1u32, 2, 255, 256, 65535, 65536, 0x0100_0000, u32::MAX - 1, u32::MAX]),
            1 => 1u32..=u32::MAX,
        ]
        .boxed()
    }
}

pub const CONNACK_RC_V311: [u8; 6] = [0, 1, 2, 3, 4, 5];
pub const CONNACK_RC_V5: [u8; 22] = [
    0x00, 0x80, 0x81, 0x82, 0x83, 0x84, 0x85, 0x86, 0x87, 0x88, 0x89, 0x8A, 0x8C, 0x90, 0x95, 0x97, 0x99, 0x9A, 0x9B,
    0x9C, 0x9D, 0x9F,
];
pub const PUBACK_RC: [u8; 9] = [0x00, 0x10, 0x80, 0x83, 0x87, 0x90, 0x91, 0x97, 0x99];
pub const PUBREL_RC: [u8; 2] = [0x00, 0x92];
pub const SUBACK_RC_V311: [u8; 4] = [0, 1, 2, 0x80];
pub const SUBACK_RC_V5: [u8; 12] = [0, 1, 2, 0x80, 0x83, 0x87, 0x8F, 0x91, 0x97, 0x9E, 0xA1, 0xA2];
pub const UNSUBACK_RC: [u8; 7] = [0x00, 0x11, 0x80, 0x83, 0x87, 0x8F, 0x91];
pub const DISCONNECT_RC: [u8; 29] = [
    0x00, 0x04, 0x80, 0x81, 0x82, 0x83, 0x87, 0x89, 0x8B, 0x8D, 0x8E, 0x8F, 0x90, 0x93, 0x94, 0x95, 0x96, 0x97, 0x98,
    0x99, 0x9A, 0x9B, 0x9C, 0x9D, 0x9E, 0x9F, 0xA0, 0xA1, 0xA2,
];
pub const AUTH_RC: [u8; 3] = [0x00, 0x18, 0x19];

pub fn ack_rcs(kind: AckKind) -> &'static [u8] {
    match kind {
        AckKind::Puback | AckKind::Pubrec => &PUBACK_RC,
        AckKind::Pubrel | AckKind::Pubcomp => &PUBREL_RC,
    }
}

fn will(v: V, big: bool) -> BoxedStrategy<Option<Will>> {
    let props = if v == V::V5 { props_for(Loc::Will, big) } else { Just(vec![]).boxed() };
    prop_oneof![
        2 => Just(None),
        1 => (topic_name(false), binary(big), 0u8..=2, any::<bool>(), props)
            .prop_map(|(topic, payload, qos, retain, props)| Some(Will { topic, payload, qos, retain, props })),
    ]
    .boxed()
}

pub fn connect(v: V, big: bool) -> BoxedStrategy<AP> {
    let props = if v == V::V5 { props_for(Loc::Connect, big) } else { Just(vec![]).boxed() };
    (
        any::<bool>(),
        prop_oneof![Just(0u16), Just(1u16), Just(10u16), Just(65535u16), any::<u16>()],
        mqtt_string(big),
        will(v, big),
        proptest::option::of(mqtt_string(big)),
        proptest::option::of(binary(big)),
        props,
    )
        .prop_map(move |(clean, keep_alive, client_id, will, user, pass, props)| {
            // password without user name is forbidden by the builders (and by v3.1.1)
            let pass = if user.is_none() { None } else { pass };
            AP::Connect { v, clean, keep_alive, client_id, will, user, pass, props }
        })
        .boxed()
}

pub fn connack(v: V, big: bool) -> BoxedStrategy<AP> {
    match v {
        V::V311 => (any::<bool>(), select(CONNACK_RC_V311.to_vec()))
            .prop_map(move |(sp, code)| AP::Connack { v, sp, code, props: vec![] })
            .boxed(),
        V::V5 => (any::<bool>(), select(CONNACK_RC_V5.to_vec()), props_for(Loc::Connack, big))
            .prop_map(move |(sp, code, props)| AP::Connack { v, sp, code, props })
            .boxed(),
    }
}

pub fn publish(v: V, idw: usize, big: bool) -> BoxedStrategy<AP> {
    let props = if v == V::V5 { props_for(Loc::Publish, big) } else { Just(vec![]).boxed() };
    (
        any::<bool>(),
        0u8..=2,
        any::<bool>(),
        topic_name(big),
        packet_id(idw),
        props,
        payload(big),
        any::<bool>(),
    )
        .prop_map(move |(dup, qos, retain, topic, id, props, payload, empty_topic)| {
            let has_alias = props.iter().any(|p| p.id == pid::TOPIC_ALIAS);
            let topic = if v == V::V5 && has_alias && empty_topic { String::new() } else { topic };
            AP::Publish { v, dup, qos, retain, topic, pid: if qos > 0 { Some(id) } else { None }, props, payload }
        })
        .boxed()
}

pub fn ack(v: V, kind: AckKind, idw: usize, big: bool, allow_v311_rc: bool) -> BoxedStrategy<AP> {
    match v {
        V::V311 => {
            if allow_v311_rc {
                (packet_id(idw), proptest::option::weighted(0.3, select(ack_rcs(kind).to_vec())))
                    .prop_map(move |(pid, rc)| AP::Ack { v, kind, pid, rc, props: None })
                    .boxed()
            } else {
                packet_id(idw).prop_map(move |pid| AP::Ack { v, kind, pid, rc: None, props: None }).boxed()
            }
        }
        V::V5 => (
            packet_id(idw),
            proptest::option::weighted(0.7, select(ack_rcs(kind).to_vec())),
            proptest::option::weighted(0.6, props_for(kind.loc(), big)),
        )
            .prop_map(move |(pid, rc, props)| {
                let props = if rc.is_none() { None } else { props };
                AP::Ack { v, kind, pid, rc, props }
            })
            .boxed(),
    }
}

pub fn subscribe(v: V, idw: usize, big: bool, v5_opts_in_v311: bool) -> BoxedStrategy<AP> {
    let props = if v == V::V5 { props_for(Loc::Subscribe, big) } else { Just(vec![]).boxed() };
    let opts = if v == V::V5 || v5_opts_in_v311 {
        (0u8..=2, any::<bool>(), any::<bool>(), 0u8..=2)
            .prop_map(|(q, nl, rap, rh)| q | ((nl as u8) << 2) | ((rap as u8) << 3) | (rh << 4))
            .boxed()
    } else {
        (0u8..=2).boxed()
    };
    (packet_id(idw), props, vec((topic_filter(), opts), 1..4))
        .prop_map(move |(pid, props, entries)| AP::Subscribe { v, pid, props, entries })
        .boxed()
}

pub fn suback(v: V, idw: usize, big: bool) -> BoxedStrategy<AP> {
    let props = if v == V::V5 { props_for(Loc::Suback, big) } else { Just(vec![]).boxed() };
    let codes = if v == V::V5 { SUBACK_RC_V5.to_vec() } else { SUBACK_RC_V311.to_vec() };
    (packet_id(idw), props, vec(select(codes), 1..5))
        .prop_map(move |(pid, props, codes)| AP::Suback { v, pid, props, codes })
        .boxed()
}

pub fn unsubscribe(v: V, idw: usize, big: bool) -> BoxedStrategy<AP> {
    let props = if v == V::V5 { props_for(Loc::Unsubscribe, big) } else { Just(vec![]).boxed() };
    (packet_id(idw), props, vec(topic_filter(), 1..4))
        .prop_map(move |(pid, props, topics)| AP::Unsubscribe { v, pid, props, topics })
        .boxed()
}

pub fn unsuback(v: V, idw: usize, big: bool) -> BoxedStrategy<AP> {
    match v {
        V::V311 => packet_id(idw).prop_map(move |pid| AP::Unsuback { v, pid, props: vec![], codes: vec![] }).boxed(),
        V::V5 => (packet_id(idw), props_for(Loc::Unsuback, big), vec(select(UNSUBACK_RC.to_vec()), 1..5))
            .prop_map(move |(pid, props, codes)| AP::Unsuback { v, pid, props, codes })
            .boxed(),
    }
}

pub fn disconnect(v: V, big: bool) -> BoxedStrategy<AP> {
    match v {
        V::V311 => Just(AP::Disconnect { v, rc: None, props: None }).boxed(),
        V::V5 => (
            proptest::option::weighted(0.8, select(DISCONNECT_RC.to_vec())),
            proptest::option::weighted(0.6, props_for(Loc::Disconnect, big)),
        )
            .prop_map(move |(rc, props)| {
                let props = if rc.is_none() { None } else { props };
                AP::Disconnect { v, rc, props }
            })
            .boxed(),
    }
}

pub fn auth(big: bool) -> BoxedStrategy<AP> {
    (
        proptest::option::weighted(0.85, select(AUTH_RC.to_vec())),
        proptest::option::weighted(0.7, props_for(Loc::Auth, big)),
        mqtt_string(false),
    )
        .prop_map(|(rc, props, method)| {
            // with a reason code the property length is always on the wire (§3.15.2.1), so the abstract
            // value always has a (possibly empty) property list
            let mut props = if rc.is_none() { None } else { Some(props.unwrap_or_default()) };
            // a reason code other than Success requires an Authentication Method (§3.15.2.2.2)
            if let Some(r) = rc {
                if r != 0 {
                    let mut ps = props.unwrap_or_default();
                    if !ps.iter().any(|p| p.id == pid::AUTHENTICATION_METHOD) {
                        ps.insert(0, Prop { id: pid::AUTHENTICATION_METHOD, val: PVal::Str(method) });
                    }
                    props = Some(ps);
                }
            }
            AP::Auth { rc, props }
        })
        .boxed()
}

#[derive(Clone, Copy, Debug)]
pub struct GenOpts {
    /// large strings / payloads
    pub big: bool,
    /// include what the builders accept beyond the specification
    /// (v3.1.1 reason bytes on acks, v5 option bits in a v3.1.1 SUBSCRIBE)
    pub beyond_spec: bool,
}

/// Any packet of version `v`
pub fn any_packet(v: V, idw: usize, o: GenOpts) -> BoxedStrategy<AP> {
    let mut alts: Vec<(u32, BoxedStrategy<AP>)> = vec![
        (3, connect(v, o.big)),
        (2, connack(v, o.big)),
        (5, publish(v, idw, o.big)),
        (1, ack(v, AckKind::Puback, idw, o.big, o.beyond_spec)),
        (1, ack(v, AckKind::Pubrec, idw, o.big, o.beyond_spec)),
        (1, ack(v, AckKind::Pubrel, idw, o.big, o.beyond_spec)),
        (1, ack(v, AckKind::Pubcomp, idw, o.big, o.beyond_spec)),
        (2, subscribe(v, idw, o.big, o.beyond_spec)),
        (2, suback(v, idw, o.big)),
        (2, unsubscribe(v, idw, o.big)),
        (2, unsuback(v, idw, o.big)),
        (1, Just(AP::Pingreq { v }).boxed()),
        (1, Just(AP::Pingresp { v }).boxed()),
        (2, disconnect(v, o.big)),
    ];
    if v == V::V5 {
        alts.push((2, auth(o.big)));
    }
    proptest::strategy::Union::new_weighted(alts).boxed()
}

pub fn version() -> BoxedStrategy<V> {
    select(vec![V::V311, V::V5]).boxed()
}

/// non-triviality rule shared by C02/C03: optional field, property, or boundary length present
pub fn packet_nontrivial(ap: &AP) -> bool {
    fn bl(n: usize) -> bool {
        BOUNDARY_LENS[1..].contains(&n) || BIG_LENS.contains(&n) || n >= 65536
    }
    if !ap.props().is_empty() {
        return true;
    }
    match ap {
        AP::Connect { client_id, will, user, pass, .. } => {
            will.is_some() || user.is_some() || pass.is_some() || bl(client_id.len())
        }
        AP::Connack { sp, code, .. } => *sp || *code != 0,
        AP::Publish { topic, payload, qos, dup, retain, .. } => {
            *qos > 0 || *dup || *retain || bl(topic.len()) || bl(payload.len())
        }
        AP::Ack { rc, props, .. } => rc.is_some() || props.is_some(),
        AP::Subscribe { entries, .. } => entries.len() > 1 || entries.iter().any(|e| e.1 != 0),
        AP::Suback { codes, .. } => codes.len() > 1 || codes.iter().any(|c| *c != 0),
        AP::Unsubscribe { topics, .. } => topics.len() > 1,
        AP::Unsuback { codes, .. } => !codes.is_empty(),
        AP::Disconnect { rc, .. } => rc.is_some(),
        AP::Auth { rc, .. } => rc.is_some(),
        AP::Pingreq { .. } | AP::Pingresp { .. } => false,
    }
}
