//! vcheck run <Cxx> [--tier quick|thorough] [--seed N]
//! vcheck replay <file.json>
//! exit 0: property held on everything explored; 1: VIOLATION line printed; 2: inconclusive

use serde_json::{json, Value};
use std::path::{Path, PathBuf};
use std::time::Instant;
use vharness::checks;
use vharness::engine::{Ctx, Fail, Tier, Violation};
use vharness::{evidence, findings};

fn verif_dir() -> PathBuf {
    if let Ok(d) = std::env::var("VERIF_DIR") {
        return PathBuf::from(d);
    }
    PathBuf::from("/verif")
}

fn usage() -> ! {
    eprintln!("usage: vcheck run <Cxx> [--tier quick|thorough] [--seed N] | vcheck replay <file>");
    std::process::exit(2);
}

fn write_replay(dir: &Path, prop: &str, v: &Violation) -> PathBuf {
    let d = dir.join("replays").join(prop);
    let _ = std::fs::create_dir_all(&d);
    let body = json!({
        "property": prop,
        "check": v.check,
        "rule": v.fail.rule,
        "sig": v.fail.sig,
        "detail": v.fail.detail,
        "seed": v.seed,
        "case": v.case,
        // cargo features of the library build that produced this replay ("" = default); `./check --replay` rebuilds with them
        "features": std::env::var("VERIF_BUILD_FEATURES").unwrap_or_default(),
    });
    let text = serde_json::to_string_pretty(&body).unwrap();
    let h = vharness::util::h64(&(v.check.as_str(), v.fail.rule.as_str(), v.case.to_string()));
    let feat = std::env::var("VERIF_BUILD_FEATURES").map(|f| if f.is_empty() { f } else { format!("-{f}") }).unwrap_or_default();
    let p = d.join(format!("{}{}-{:016x}.json", v.fail.rule.replace('.', "_"), feat, h));
    let _ = std::fs::write(&p, text);
    p
}

/// Replay one file. Returns Ok(None) if it passes, Ok(Some(fail)) if the violation reproduces.
fn replay_file(ctx: &Ctx, path: &Path) -> Result<(String, Option<Fail>), String> {
    let text = std::fs::read_to_string(path).map_err(|e| format!("{}: {e}", path.display()))?;
    let v: Value = serde_json::from_str(&text).map_err(|e| format!("{}: {e}", path.display()))?;
    let prop = v["property"].as_str().unwrap_or("").to_string();
    let check = v["check"].as_str().unwrap_or("").to_string();
    let _ = ctx;
    for c in checks::registry() {
        if c.id == prop {
            return match (c.replay)(&check, &v["case"]) {
                Some(Ok(())) => Ok((prop, None)),
                Some(Err(f)) => Ok((prop, Some(f))),
                None => Err(format!("{}: unknown check {check} / undecodable case", path.display())),
            };
        }
    }
    Err(format!("{}: unknown property {prop}", path.display()))
}

fn main() {
    let args: Vec<String> = std::env::args().collect();
    if args.len() < 3 {
        usage();
    }
    if (args[1] == "replay-fuzz" || args[1] == "corpus") && args.len() < 4 {
        usage();
    }
    let dir = verif_dir();
    let known = findings::load(&dir);
    let mut tier = match std::env::var("VERIF_TIER").as_deref() {
        Ok("thorough") => Tier::Thorough,
        _ => Tier::Quick,
    };
    let mut seed: u64 = std::env::var("VERIF_SEED").ok().and_then(|s| s.parse().ok()).unwrap_or(1);
    let mut i = if args[1] == "run" { 3 } else { args.len() };
    while i < args.len() {
        match args[i].as_str() {
            "--tier" => {
                tier = match args.get(i + 1).map(|s| s.as_str()) {
                    Some("thorough") => Tier::Thorough,
                    Some("quick") => Tier::Quick,
                    _ => usage(),
                };
                i += 2;
            }
            "--seed" => {
                seed = args.get(i + 1).and_then(|s| s.parse().ok()).unwrap_or_else(|| usage());
                i += 2;
            }
            _ => usage(),
        }
    }
    let workers: usize = std::env::var("VERIF_WORKERS").ok().and_then(|s| s.parse().ok()).unwrap_or(12);
    vharness::util::quiet_panics();
    match args[1].as_str() {
        // vcheck corpus <target> <dir>: write the seed corpus of a fuzz target
        "corpus" => {
            let n = vharness::fuzz::write_corpus(&args[2], Path::new(args.get(3).map(|s| s.as_str()).unwrap_or("corpus"))).unwrap_or(0);
            println!("corpus {}: {} files", args[2], n);
            std::process::exit(0);
        }
        // vcheck replay-fuzz <target> <artifact>: re-run one fuzz input in-process
        "replay-fuzz" => {
            let data = std::fs::read(&args[3]).unwrap_or_default();
            // target is fz_decode, fz_chunk, fz_conn (property from VERIF_FZ_CHECK) or fz_conn:<Cxx>
            let prop: String = match args[2].as_str() {
                "fz_decode" => "C04".into(),
                "fz_chunk" => "C09".into(),
                t if t.starts_with("fz_conn:") => t[8..].to_string(),
                _ => vharness::fuzz::selected_check().to_string(),
            };
            match vharness::fuzz::run_target(&args[2], &data) {
                Some(Ok(())) => {
                    println!("replay-fuzz {}: property {} holds on this input", args[3], prop);
                    std::process::exit(0);
                }
                Some(Err(f)) => {
                    if let Some(k) = known.iter().find(|k| k.open && k.rule == f.rule && k.sig == f.sig) {
                        println!("KNOWN-FINDING: property={} rule={} sig={} :: {}", prop, f.rule, f.sig, k.text);
                        std::process::exit(0);
                    }
                    println!("rule={} sig={}\n{}", f.rule, f.sig, f.detail);
                    println!("VIOLATION property={} replay={}", prop, args[3]);
                    std::process::exit(1);
                }
                None => usage(),
            }
        }
        "replay" => {
            let ctx = Ctx { tier, seed, workers, verif_dir: dir.clone(), known, strict: true };
            match replay_file(&ctx, Path::new(&args[2])) {
                Ok((prop, None)) => {
                    println!("replay {}: property {} holds on this input", args[2], prop);
                    std::process::exit(0);
                }
                Ok((prop, Some(f))) => {
                    println!("rule={} sig={}\n{}", f.rule, f.sig, f.detail);
                    println!("VIOLATION property={} replay={}", prop, args[2]);
                    std::process::exit(1);
                }
                Err(e) => {
                    eprintln!("replay error: {e}");
                    std::process::exit(2);
                }
            }
        }
        "run" => {
            let prop = args[2].as_str();
            let Some(check) = checks::registry().into_iter().find(|c| c.id == prop) else {
                eprintln!("unknown property {prop}");
                std::process::exit(2);
            };
            let ctx = Ctx {
                tier,
                seed,
                workers,
                verif_dir: dir.clone(),
                known: known.iter().filter(|k| k.property == prop).cloned().collect(),
                strict: false,
            };
            let t0 = Instant::now();
            let mut exit = 0;
            // 1. regression replays (seconds): every minimal replay of a defect found earlier
            let mut reg_n = 0;
            let mut known_lines: Vec<String> = Vec::new();
            let rdir = dir.join("regressions").join(prop);
            if let Ok(rd) = std::fs::read_dir(&rdir) {
                let mut files: Vec<PathBuf> = rd.filter_map(|e| e.ok().map(|e| e.path())).filter(|p| p.extension().map(|x| x == "json").unwrap_or(false)).collect();
                files.sort();
                let strict = Ctx { strict: true, ..ctx.clone() };
                for f in files {
                    reg_n += 1;
                    match replay_file(&strict, &f) {
                        Ok((_, None)) => {}
                        Ok((_, Some(fail))) => {
                            if let Some(k) = ctx.known.iter().find(|k| k.open && k.rule == fail.rule && k.sig == fail.sig) {
                                let line = format!("KNOWN-FINDING: property={} rule={} sig={} :: {}", prop, fail.rule, fail.sig, k.text);
                                println!("{line}");
                                known_lines.push(line);
                            } else {
                                println!("regression {} fails: rule={} sig={}\n{}", f.display(), fail.rule, fail.sig, fail.detail);
                                println!("VIOLATION property={} replay={}", prop, f.display());
                                exit = 1;
                            }
                        }
                        Err(e) => {
                            eprintln!("regression replay error: {e}");
                            std::process::exit(2);
                        }
                    }
                }
            }
            // 2. the search
            let mut rep = (check.run)(&ctx);
            rep.known_hits = known_lines;
            rep.stats.count("regression_replays", reg_n);
            if let Ok(fz) = std::env::var("VERIF_FUZZ_SUMMARY") {
                // "<target> runs=<n> cov=<n> corpus=<n> crashes=<n>"
                rep.parts.push(json!({"part": "libfuzzer_campaign", "summary": fz}));
                for tok in fz.split_whitespace() {
                    if let Some((k, v)) = tok.split_once('=') {
                        if let Ok(n) = v.parse::<u64>() {
                            rep.stats.count(&format!("fuzz_{k}"), n);
                            if k == "runs" {
                                rep.stats.evaluations += n;
                            }
                        }
                    }
                }
            }
            if let Ok(n) = std::env::var("VERIF_FUZZ_VIOLATIONS") {
                rep.fuzz_violations = n.parse().unwrap_or(0);
            }
            let d23 = vharness::scn::EXCLUDED_D23.load(std::sync::atomic::Ordering::Relaxed);
            if d23 > 0 {
                rep.stats.count("generated_connacks_with_known_finding_D23_trigger_removed", d23);
            }
            for v in &rep.violations {
                let p = write_replay(&dir, prop, v);
                println!("check={} rule={} sig={}\n{}", v.check, v.fail.rule, v.fail.sig, v.fail.detail);
                println!("VIOLATION property={} replay={}", prop, p.display());
                exit = 1;
            }
            if vharness::engine::collecting() {
                let g = vharness::engine::COLLECTED.lock().unwrap();
                for ((rule, sig), (n, detail)) in g.iter() {
                    let d: String = detail.chars().take(400).collect();
                    println!("COLLECT {rule} | {sig} | n={n}\n    {}", d.replace('\n', "\n    "));
                }
                println!("COLLECT distinct failing classes: {}", g.len());
                exit = 3;
            }
            if let Ok(extra) = std::env::var("VERIF_EXTRA_PARTS") {
                // summaries of the same check run against other cargo feature sets of the library (thorough, C02-C04)
                for part in extra.split(';').map(|s| s.trim()).filter(|s| !s.is_empty()) {
                    rep.parts.push(json!({"part": "feature_variant", "summary": part}));
                }
            }
            let wall = t0.elapsed().as_secs_f64();
            if std::env::var("VERIF_NO_EVIDENCE").is_ok() {
                println!("{} {} seed={} features={} evaluations={} distinct_nontrivial={} violations={} wall={:.1}s", prop, ctx.tier.name(), ctx.seed, std::env::var("VERIF_BUILD_FEATURES").unwrap_or_default(), rep.stats.evaluations, rep.stats.nontrivial.len(), rep.violations.len(), wall);
                std::process::exit(exit);
            }
            if let Err(e) = evidence::write(&ctx, prop, check.level, &rep, wall) {
                eprintln!("cannot write evidence: {e}");
                std::process::exit(2);
            }
            println!(
                "{} {} seed={} evaluations={} distinct_nontrivial={} excluded_known={} violations={} wall={:.1}s",
                prop,
                tier.name(),
                seed,
                rep.stats.evaluations,
                rep.stats.nontrivial.len(),
                rep.stats.excluded_known,
                rep.violations.len(),
                wall
            );
            std::process::exit(exit);
        }
        _ => usage(),
    }
}
