//! Scenario engine: op alphabet, event-derived tracker (what an application can know from the
//! events it sees), application view used to aim ops at live exchanges, interpreter.

use crate::ap::*;
use crate::conn::*;
use crate::engine::pick_idx;
use crate::refcodec;
use proptest::prelude::*;
use serde::{Deserialize, Serialize};
use std::collections::{BTreeMap, BTreeSet};

pub const TOPICS: [&str; 4] = ["t/0", "t/1", "topic/number/two", "x"];

#[derive(Clone, Copy, Debug, PartialEq, Eq, Hash, Serialize, Deserialize)]
pub enum St {
    Disconnected,
    Connecting,
    Connected,
}

#[derive(Clone, Copy, Debug, PartialEq, Eq, Hash, Serialize, Deserialize)]
pub enum AliasMode {
    None,
    /// topic + alias (binds)
    Bind(u16),
    /// empty topic + alias (uses)
    Use(u16),
    /// empty topic + the k-th alias that an earlier PUBLISH of this direction bound on this connection (falls back to alias 1)
    UseLive(u16),
}

#[derive(Clone, Copy, Debug, PartialEq, Eq, Hash, Serialize, Deserialize)]
pub enum IdSrc {
    /// call acquire_packet_id() first
    Acquire,
    /// call register_packet_id(v) first
    Register(u32),
    /// k-th id the application holds and has not used for an exchange yet
    Held(u16),
    /// a value the application does not hold (never acquired)
    Free(u32),
}

#[derive(Clone, Copy, Debug, PartialEq, Eq, Hash, Serialize, Deserialize)]
pub enum Sel {
    /// k-th element of the relevant live set (falls back to Arb(1) when the set is empty)
    Live(u16),
    /// k-th element of a *different* live set (wrong kind for the id)
    Wrong(u16),
    Arb(u32),
    /// k-th element of the relevant live set; the op is skipped when the set is empty (keeps connections alive longer)
    LiveOnly(u16),
}

#[derive(Clone, Copy, Debug, PartialEq, Eq, Hash, Serialize, Deserialize)]
pub enum Opt {
    AutoPub(bool),
    AutoPing(bool),
    AutoMap(bool),
    AutoReplace(bool),
    Offline(bool),
    PingrespTimeout(u64),
    PingInterval(Option<u64>),
}

#[derive(Clone, Copy, Debug, PartialEq, Eq, Hash, Default, Serialize, Deserialize)]
pub struct HsProps {
    pub rm: Option<u16>,
    pub tam: Option<u16>,
    pub mps: Option<u32>,
    pub sei: Option<u32>,
    /// CONNACK only
    pub ska: Option<u16>,
}

#[derive(Clone, Copy, Debug, PartialEq, Eq, Hash, Serialize, Deserialize)]
pub struct ConnectArgs {
    pub clean: bool,
    pub keep_alive: u16,
    pub p: HsProps,
}

#[derive(Clone, Copy, Debug, PartialEq, Eq, Hash, Serialize, Deserialize)]
pub struct ConnackArgs {
    pub sp: bool,
    /// 0 = success; otherwise index into the failure-code table
    pub fail: u8,
    pub p: HsProps,
}

#[derive(Clone, Debug, PartialEq, Eq, Hash, Serialize, Deserialize)]
pub enum Op {
    // ---- local application calls
    Connect(ConnectArgs),
    Connack(ConnackArgs),
    Publish { qos: u8, topic: u8, alias: AliasMode, plen: u8, retain: bool, id: IdSrc },
    Subscribe { id: IdSrc, n: u8 },
    Unsubscribe { id: IdSrc, n: u8 },
    Suback { sel: Sel },
    Unsuback { sel: Sel },
    Ack { kind: AckKind, sel: Sel, rc: u8 },
    Pingreq,
    Pingresp,
    Disconnect { rc: u8 },
    Auth { rc: u8 },
    AcquireId,
    RegisterId { v: u32 },
    ReleaseId { sel: Sel },
    Erase { sel: Sel },
    SetOpt(Opt),
    Fire(TK),
    Closed,
    // ---- peer traffic (bytes from the reference codec)
    PeerConnect(ConnectArgs),
    PeerConnack(ConnackArgs),
    PeerPublish { qos: u8, id: Sel, dup: bool, topic: u8, alias: AliasMode, plen: u8 },
    PeerAck { kind: AckKind, sel: Sel, rc: u8 },
    PeerSubscribe { id: u32, n: u8 },
    PeerUnsubscribe { id: u32, n: u8 },
    PeerSuback { sel: Sel },
    PeerUnsuback { sel: Sel },
    PeerPingreq,
    PeerPingresp,
    PeerDisconnect { rc: u8 },
    PeerAuth { rc: u8 },
    /// arbitrary bytes (already framed or not)
    PeerRaw(#[serde(with = "crate::ap::hexser")] Vec<u8>),
    /// an explicit abstract packet from the peer (C05 boundary values, C17 matrix)
    PeerPacket(AP),
    /// how the following peer frames are cut into recv buffers: 0 = whole, k>0 = k-byte pieces
    Chunk(u8),
}

/// The concrete call an op was resolved to.
#[derive(Clone, Debug, PartialEq, Eq, Serialize, Deserialize)]
pub enum Call {
    Send(AP),
    /// the abstract packet could not be built through the public builders (no call made)
    Unbuildable(String),
    Recv { #[serde(with = "crate::ap::hexser")] bytes: Vec<u8>, ap: Option<AP> },
    Timer(TK),
    Closed,
    Acquire(Result<u32, String>),
    Register(u32, Result<(), String>),
    Release(u32),
    Erase(u32),
    SetOpt(Opt),
    Skipped(String),
}

#[derive(Clone, Debug)]
pub struct Step {
    pub idx: usize,
    pub op: Op,
    pub call: Call,
    /// normalised events of the whole op (all recv calls concatenated)
    pub events: Vec<NEvent>,
    /// per recv call: (bytes consumed, events)
    pub calls: Vec<(usize, Vec<NEvent>)>,
    /// set when the library panicked (message) or a recv call made no progress
    pub panic: Option<String>,
    pub wedge: Option<String>,
    /// extra id-management sub-calls made while resolving the id source: (call, events)
    pub pre: Vec<(Call, Vec<NEvent>)>,
    /// a new session started in this step (clean start sent/received, or CONNACK without session present)
    pub new_session: bool,
}

impl Step {
    pub fn has_error(&self) -> bool {
        self.events.iter().any(|e| matches!(e, NEvent::Error(_)))
    }
    pub fn errors(&self) -> Vec<&str> {
        self.events.iter().filter_map(|e| if let NEvent::Error(s) = e { Some(s.as_str()) } else { None }).collect()
    }
    pub fn sends(&self) -> Vec<&AP> {
        self.events.iter().filter_map(|e| if let NEvent::Send { ap, .. } = e { Some(ap) } else { None }).collect()
    }
    pub fn recvs(&self) -> Vec<&AP> {
        self.events.iter().filter_map(|e| if let NEvent::Recv(ap) = e { Some(ap) } else { None }).collect()
    }
    pub fn released(&self) -> Vec<u32> {
        self.events.iter().filter_map(|e| if let NEvent::Released(x) = e { Some(*x) } else { None }).collect()
    }
    pub fn brief(&self) -> String {
        let call = match &self.call {
            Call::Send(ap) => format!("send {}", ap.brief()),
            Call::Unbuildable(e) => format!("unbuildable ({e})"),
            Call::Recv { ap: Some(ap), .. } => format!("recv {}", ap.brief()),
            Call::Recv { bytes, .. } => format!("recv raw {}", crate::util::hex_trunc(bytes, 24)),
            Call::Timer(k) => format!("timer {k:?}"),
            Call::Closed => "notify_closed".into(),
            Call::Acquire(r) => format!("acquire -> {r:?}"),
            Call::Register(v, r) => format!("register({v}) -> {r:?}"),
            Call::Release(v) => format!("release({v})"),
            Call::Erase(v) => format!("erase_stored_publish({v})"),
            Call::SetOpt(o) => format!("set {o:?}"),
            Call::Skipped(w) => format!("skipped ({w})"),
        };
        let mut s = format!("#{} {} => {}", self.idx, call, brief_list(&self.events));
        if let Some(p) = &self.panic {
            s.push_str(&format!(" PANIC {p}"));
        }
        s
    }
}

/// Event-derived state: what can be known from the ops issued and the events returned.
#[derive(Clone, Debug)]
pub struct Tracker {
    pub cfg: ConnCfg,
    /// effective protocol version (adopted by an undetermined server)
    pub v: Option<V>,
    pub status: St,
    pub as_client: bool,
    /// notify_closed has been reported since the last connection (or no connection yet)
    pub closed_reported: bool,
    pub persistent: bool,
    pub offline: bool,
    pub auto_pub: bool,
    pub auto_ping: bool,
    pub auto_map: bool,
    pub auto_replace: bool,
    /// Receive Maximum announced by the peer (limits what we send)
    pub peer_rm: Option<u16>,
    /// Receive Maximum announced by us
    pub own_rm: Option<u16>,
    /// Topic Alias Maximum announced by the peer (aliases we may send), None/0 = none
    pub send_alias_max: u16,
    /// Topic Alias Maximum announced by us
    pub recv_alias_max: u16,
    pub mps_send: Option<u32>,
    pub mps_recv: Option<u32>,
    pub keep_alive: u16,
    pub server_keep_alive: Option<u16>,
    pub ping_override: Option<u64>,
    pub pingresp_timeout: u64,
    pub armed: BTreeSet<TK>,
    /// number of connections started (CONNECT sent / received)
    pub conn_seq: u32,
    /// the current connection started a new session (clean start or session not present)
    pub new_session: bool,
    /// the connection reached Connected at least once in this history
    pub ever_connected: bool,
    /// the library requested the transport to be closed and notify_closed has not been reported yet
    pub close_requested: bool,
}

impl Tracker {
    pub fn new(cfg: ConnCfg) -> Tracker {
        Tracker {
            cfg,
            v: cfg.ver.v(),
            status: St::Disconnected,
            as_client: cfg.role == Role::Client,
            closed_reported: true,
            persistent: false,
            offline: false,
            auto_pub: false,
            auto_ping: false,
            auto_map: false,
            auto_replace: false,
            peer_rm: None,
            own_rm: None,
            send_alias_max: 0,
            recv_alias_max: 0,
            mps_send: None,
            mps_recv: None,
            keep_alive: 0,
            server_keep_alive: None,
            ping_override: None,
            pingresp_timeout: 0,
            armed: BTreeSet::new(),
            conn_seq: 0,
            new_session: false,
            ever_connected: false,
            close_requested: false,
        }
    }

    fn reset_connection_scope(&mut self) {
        self.peer_rm = None;
        self.own_rm = None;
        self.send_alias_max = 0;
        self.recv_alias_max = 0;
        self.mps_send = None;
        self.mps_recv = None;
        self.keep_alive = 0;
        self.server_keep_alive = None;
    }

    fn persistent_of_connect(ap: &AP) -> bool {
        match ap {
            AP::Connect { v: V::V311, clean, .. } => !*clean,
            AP::Connect { v: V::V5, .. } => ap.prop_u32(pid::SESSION_EXPIRY_INTERVAL).map(|x| x != 0).unwrap_or(false),
            _ => false,
        }
    }

    /// Update from one executed step. Returns true when a new session started in this step.
    pub fn update(&mut self, st: &Step) -> bool {
        let mut new_session = false;
        match &st.call {
            Call::SetOpt(o) => match o {
                Opt::AutoPub(b) => self.auto_pub = *b,
                Opt::AutoPing(b) => self.auto_ping = *b,
                Opt::AutoMap(b) => self.auto_map = *b,
                Opt::AutoReplace(b) => self.auto_replace = *b,
                Opt::Offline(b) => {
                    self.offline = *b;
                    if *b {
                        // enabling offline publishing makes the session kept at once (until the next CONNECT decides anew)
                        self.persistent = true;
                    }
                }
                Opt::PingrespTimeout(ms) => self.pingresp_timeout = *ms,
                Opt::PingInterval(i) => self.ping_override = *i,
            },
            Call::Closed => {
                self.status = St::Disconnected;
                self.closed_reported = true;
                self.close_requested = false;
                self.reset_connection_scope();
            }
            _ => {}
        }
        for e in &st.events {
            match e {
                NEvent::Send { ap, .. } => match ap {
                    AP::Connect { clean, keep_alive, .. } => {
                        self.status = St::Connecting;
                        self.as_client = true;
                        self.closed_reported = false;
                        self.conn_seq += 1;
                        self.reset_connection_scope();
                        self.keep_alive = *keep_alive;
                        self.persistent = Self::persistent_of_connect(ap);
                        self.new_session = *clean;
                        if *clean {
                            new_session = true;
                        }
                        self.own_rm = ap.prop_u16(pid::RECEIVE_MAXIMUM);
                        self.recv_alias_max = ap.prop_u16(pid::TOPIC_ALIAS_MAXIMUM).unwrap_or(0);
                        self.mps_recv = ap.prop_u32(pid::MAXIMUM_PACKET_SIZE);
                    }
                    AP::Connack { code, .. } => {
                        if *code == 0 {
                            self.status = St::Connected;
                            self.ever_connected = true;
                            if let Some(x) = ap.prop_u16(pid::RECEIVE_MAXIMUM) {
                                self.own_rm = Some(x);
                            }
                            if let Some(x) = ap.prop_u16(pid::TOPIC_ALIAS_MAXIMUM) {
                                self.recv_alias_max = x;
                            }
                            if let Some(x) = ap.prop_u32(pid::MAXIMUM_PACKET_SIZE) {
                                self.mps_recv = Some(x);
                            }
                            if let Some(x) = ap.prop_u16(pid::SERVER_KEEP_ALIVE) {
                                self.server_keep_alive = Some(x);
                            }
                        } else {
                            self.status = St::Disconnected;
                        }
                    }
                    AP::Disconnect { .. } => {
                        self.status = St::Disconnected;
                    }
                    _ => {}
                },
                NEvent::Recv(ap) => match ap {
                    AP::Connect { v, clean, keep_alive, .. } => {
                        self.status = St::Connecting;
                        self.as_client = false;
                        self.closed_reported = false;
                        self.conn_seq += 1;
                        self.v = Some(*v);
                        self.reset_connection_scope();
                        self.keep_alive = *keep_alive;
                        self.persistent = Self::persistent_of_connect(ap);
                        self.new_session = *clean;
                        if *clean {
                            new_session = true;
                        }
                        self.peer_rm = ap.prop_u16(pid::RECEIVE_MAXIMUM);
                        self.send_alias_max = ap.prop_u16(pid::TOPIC_ALIAS_MAXIMUM).unwrap_or(0);
                        self.mps_send = ap.prop_u32(pid::MAXIMUM_PACKET_SIZE);
                    }
                    // a delivered CONNACK completes the handshake of a connection acting as client; the library also accepts one
                    // while it is Disconnected (e.g. the peer's CONNACK crossing the library's own error DISCONNECT before the
                    // application closed the transport), and the views follow it because the packet was delivered
                    AP::Connack { code, sp, .. } if self.status != St::Connected && self.as_client => {
                        if *code == 0 {
                            self.status = St::Connected;
                            self.ever_connected = true;
                            self.peer_rm = ap.prop_u16(pid::RECEIVE_MAXIMUM);
                            self.send_alias_max = ap.prop_u16(pid::TOPIC_ALIAS_MAXIMUM).unwrap_or(0);
                            self.mps_send = ap.prop_u32(pid::MAXIMUM_PACKET_SIZE);
                            self.server_keep_alive = ap.prop_u16(pid::SERVER_KEEP_ALIVE);
                            if let Some(sei) = ap.prop_u32(pid::SESSION_EXPIRY_INTERVAL) {
                                self.persistent = sei != 0;
                            }
                            if !*sp {
                                self.new_session = true;
                                new_session = true;
                            }
                        }
                    }
                    _ => {}
                },
                NEvent::Close => {
                    self.close_requested = true;
                }
                NEvent::TimerReset { kind, .. } => {
                    self.armed.insert(*kind);
                }
                NEvent::TimerCancel(k) => {
                    self.armed.remove(k);
                }
                _ => {}
            }
        }
        if let Call::Timer(k) = &st.call {
            // the expired timer is no longer armed unless the call re-armed it
            let rearmed = st.events.iter().any(|e| matches!(e, NEvent::TimerReset { kind, .. } if kind == k));
            if !rearmed {
                self.armed.remove(k);
            }
        }
        new_session
    }

    pub fn connected(&self) -> bool {
        self.status == St::Connected
    }
    pub fn is_v5(&self) -> bool {
        self.v == Some(V::V5)
    }
}

/// What a contract-respecting application knows: ids it holds and the exchanges it is part of.
#[derive(Clone, Debug, Default)]
pub struct App {
    /// ids held by the application and not (yet) used for an exchange
    pub held: BTreeSet<u32>,
    /// outbound exchanges by phase
    pub out_q1: BTreeSet<u32>,
    pub out_q2_rec: BTreeSet<u32>,
    /// PUBREC received, PUBREL not yet sent
    pub out_q2_rel: BTreeSet<u32>,
    pub out_q2_comp: BTreeSet<u32>,
    pub sub_pending: BTreeSet<u32>,
    pub unsub_pending: BTreeSet<u32>,
    /// inbound publishes the application still has to acknowledge
    pub in_q1: BTreeSet<u32>,
    pub in_q2_rec: BTreeSet<u32>,
    pub in_q2_comp: BTreeSet<u32>,
    /// SUBSCRIBE / UNSUBSCRIBE requests received (server) and not yet answered: id -> entries
    pub sub_recv: BTreeMap<u32, usize>,
    pub unsub_recv: BTreeMap<u32, usize>,
    /// ids used by the peer for inbound publishes so far (for duplicates)
    pub peer_ids_seen: Vec<u32>,
    /// in-flight ids whose RequestSendPacket said release_packet_id_if_send_error = Some(id)
    pub releasable: BTreeSet<u32>,
    pub tag: u32,
    /// aliases bound on this connection by PUBLISH packets passed to the transport / by inbound PUBLISH packets fed
    pub alias_out: BTreeSet<u16>,
    pub alias_in: BTreeSet<u16>,
}

impl App {
    pub fn all_out(&self) -> Vec<u32> {
        let mut v: Vec<u32> = self.out_q1.iter().chain(&self.out_q2_rec).chain(&self.out_q2_rel).chain(&self.out_q2_comp).chain(&self.sub_pending).chain(&self.unsub_pending).cloned().collect();
        v.sort_unstable();
        v.dedup();
        v
    }
    fn forget_id(&mut self, id: u32) {
        self.releasable.remove(&id);
        self.held.remove(&id);
        self.out_q1.remove(&id);
        self.out_q2_rec.remove(&id);
        self.out_q2_rel.remove(&id);
        self.out_q2_comp.remove(&id);
        self.sub_pending.remove(&id);
        self.unsub_pending.remove(&id);
    }
    pub fn new_session(&mut self) {
        self.releasable.clear();
        self.held.clear();
        self.out_q1.clear();
        self.out_q2_rec.clear();
        self.out_q2_rel.clear();
        self.out_q2_comp.clear();
        self.sub_pending.clear();
        self.unsub_pending.clear();
        self.in_q1.clear();
        self.in_q2_rec.clear();
        self.in_q2_comp.clear();
    }
    /// bookkeeping after a step (events only)
    pub fn update(&mut self, st: &Step, auto_pub: bool) {
        for (c, evs) in &st.pre {
            match c {
                Call::Acquire(Ok(id)) => {
                    self.held.insert(*id);
                }
                Call::Register(id, Ok(())) => {
                    self.held.insert(*id);
                }
                _ => {}
            }
            for e in evs {
                if let NEvent::Released(id) = e {
                    self.forget_id(*id);
                }
            }
        }
        for e in &st.events {
            match e {
                NEvent::Send { ap: AP::Connect { .. }, .. } | NEvent::Recv(AP::Connect { .. }) => {
                    self.alias_out.clear();
                    self.alias_in.clear();
                }
                NEvent::Send { ap: ap @ AP::Publish { topic, .. }, .. } if !topic.is_empty() => {
                    if let Some(a) = ap.prop_u16(pid::TOPIC_ALIAS) {
                        self.alias_out.insert(a);
                    }
                }
                _ => {}
            }
        }
        if let Call::Recv { ap: Some(ap @ AP::Publish { topic, .. }), .. } = &st.call {
            if !topic.is_empty() && !st.has_error() {
                if let Some(a) = ap.prop_u16(pid::TOPIC_ALIAS) {
                    self.alias_in.insert(a);
                }
            }
        }
        if let Call::Closed = &st.call {
            self.alias_out.clear();
            self.alias_in.clear();
        }
        match &st.call {
            Call::Acquire(Ok(id)) => {
                self.held.insert(*id);
            }
            Call::Register(id, Ok(())) => {
                self.held.insert(*id);
            }
            Call::Closed => {
                // "release if the send failed" is only meaningful while that transport is alive
                self.releasable.clear();
                self.in_q1.clear();
                self.in_q2_rec.clear();
                self.in_q2_comp.clear();
                self.sub_recv.clear();
                self.unsub_recv.clear();
            }
            _ => {}
        }
        let accepted_send = matches!(st.call, Call::Send(_)) && !st.has_error();
        if let (Call::Send(ap), true) = (&st.call, accepted_send) {
            match ap {
                AP::Publish { qos: 1, pid: Some(id), .. } => {
                    self.held.remove(id);
                    self.out_q1.insert(*id);
                }
                AP::Publish { qos: 2, pid: Some(id), .. } => {
                    self.held.remove(id);
                    self.out_q2_rec.insert(*id);
                }
                AP::Subscribe { pid, .. } => {
                    self.held.remove(pid);
                    self.sub_pending.insert(*pid);
                }
                AP::Unsubscribe { pid, .. } => {
                    self.held.remove(pid);
                    self.unsub_pending.insert(*pid);
                }
                AP::Ack { kind: AckKind::Pubrel, pid, .. } => {
                    if self.out_q2_rel.remove(pid) {
                        self.out_q2_comp.insert(*pid);
                    }
                }
                AP::Ack { kind: AckKind::Puback, pid, .. } => {
                    self.in_q1.remove(pid);
                }
                AP::Ack { kind: AckKind::Pubrec, pid, .. } => {
                    self.in_q2_rec.remove(pid);
                }
                AP::Ack { kind: AckKind::Pubcomp, pid, .. } => {
                    self.in_q2_comp.remove(pid);
                }
                AP::Suback { pid, .. } => {
                    self.sub_recv.remove(pid);
                }
                AP::Unsuback { pid, .. } => {
                    self.unsub_recv.remove(pid);
                }
                _ => {}
            }
        }
        for e in &st.events {
            if let NEvent::Send { rel: Some(id), .. } = e {
                self.releasable.insert(*id);
            }
        }
        if let Call::Release(id) = &st.call {
            // the application gave the id up itself (no event when the library did not know it)
            self.forget_id(*id);
        }
        for e in &st.events {
            match e {
                NEvent::Released(id) => self.forget_id(*id),
                NEvent::Recv(AP::Ack { pid, .. }) | NEvent::Recv(AP::Suback { pid, .. }) | NEvent::Recv(AP::Unsuback { pid, .. }) if self.releasable.contains(pid) => {
                    // the peer answered: the packet was evidently sent
                    self.releasable.remove(pid);
                    self.apply_recv(e, auto_pub);
                }
                NEvent::Recv(_) => self.apply_recv(e, auto_pub),
                NEvent::Send { ap: AP::Ack { kind: AckKind::Pubrel, pid, .. }, .. } => {
                    // automatic PUBREL
                    if self.out_q2_rel.remove(pid) || self.out_q2_rec.remove(pid) {
                        self.out_q2_comp.insert(*pid);
                    }
                }
                _ => {}
            }
        }
    }

    fn apply_recv(&mut self, e: &NEvent, auto_pub: bool) {
        {
            match e {
                NEvent::Recv(ap) => match ap {
                    AP::Publish { qos: 1, pid: Some(id), .. } => {
                        if !auto_pub {
                            self.in_q1.insert(*id);
                        }
                        self.peer_ids_seen.push(*id);
                    }
                    AP::Publish { qos: 2, pid: Some(id), .. } => {
                        if !auto_pub {
                            self.in_q2_rec.insert(*id);
                        }
                        self.peer_ids_seen.push(*id);
                    }
                    AP::Ack { v, kind: AckKind::Pubrec, pid, rc, .. } => {
                        // v3.1.1 has no failure PUBREC: the library's optional reason byte is ignored there
                        if self.out_q2_rec.remove(pid) && (*v == V::V311 || rc.map(|r| r < 0x80).unwrap_or(true)) {
                            self.out_q2_rel.insert(*pid);
                        }
                    }
                    AP::Ack { kind: AckKind::Pubrel, pid, .. } => {
                        if !auto_pub {
                            self.in_q2_comp.insert(*pid);
                        }
                    }
                    AP::Subscribe { pid, entries, .. } => {
                        self.sub_recv.insert(*pid, entries.len());
                    }
                    AP::Unsubscribe { pid, topics, .. } => {
                        self.unsub_recv.insert(*pid, topics.len());
                    }
                    _ => {}
                },
                NEvent::Send { ap: AP::Ack { kind: AckKind::Pubrel, pid, .. }, .. } => {
                    // automatic PUBREL
                    if self.out_q2_rel.remove(pid) || self.out_q2_rec.remove(pid) {
                        self.out_q2_comp.insert(*pid);
                    }
                }
                _ => {}
            }
        }
    }
}

pub const CONNACK_FAIL_V311: [u8; 5] = [1, 2, 3, 4, 5];
pub const CONNACK_FAIL_V5: [u8; 6] = [0x80, 0x84, 0x87, 0x88, 0x95, 0x9F];

pub fn connect_ap(v: V, a: &ConnectArgs) -> AP {
    let mut props = Vec::new();
    if v == V::V5 {
        if let Some(x) = a.p.sei {
            props.push(Prop::u32(pid::SESSION_EXPIRY_INTERVAL, x));
        }
        if let Some(x) = a.p.rm {
            props.push(Prop::u16(pid::RECEIVE_MAXIMUM, x));
        }
        if let Some(x) = a.p.mps {
            props.push(Prop::u32(pid::MAXIMUM_PACKET_SIZE, x));
        }
        if let Some(x) = a.p.tam {
            props.push(Prop::u16(pid::TOPIC_ALIAS_MAXIMUM, x));
        }
    }
    AP::Connect { v, clean: a.clean, keep_alive: a.keep_alive, client_id: "cid".into(), will: None, user: None, pass: None, props }
}

pub fn connack_ap(v: V, a: &ConnackArgs) -> AP {
    let code = if a.fail == 0 {
        0
    } else if v == V::V5 {
        CONNACK_FAIL_V5[(a.fail as usize - 1) % CONNACK_FAIL_V5.len()]
    } else {
        CONNACK_FAIL_V311[(a.fail as usize - 1) % CONNACK_FAIL_V311.len()]
    };
    let mut props = Vec::new();
    if v == V::V5 {
        // Known open finding D23 (known_findings.txt): a CONNACK with session present AND Session Expiry
        // Interval 0 wipes the resumed session. The trigger is excluded by construction so that the search
        // continues behind it; the witness replays regressions/C06|C08/D23_* report it as KNOWN-FINDING.
        let d23 = a.sp && code == 0 && a.p.sei == Some(0);
        if d23 {
            EXCLUDED_D23.fetch_add(1, std::sync::atomic::Ordering::Relaxed);
        }
        if let (Some(x), false) = (a.p.sei, d23) {
            props.push(Prop::u32(pid::SESSION_EXPIRY_INTERVAL, x));
        }
        if let Some(x) = a.p.rm {
            props.push(Prop::u16(pid::RECEIVE_MAXIMUM, x));
        }
        if let Some(x) = a.p.mps {
            props.push(Prop::u32(pid::MAXIMUM_PACKET_SIZE, x));
        }
        if let Some(x) = a.p.tam {
            props.push(Prop::u16(pid::TOPIC_ALIAS_MAXIMUM, x));
        }
        if let Some(x) = a.p.ska {
            props.push(Prop::u16(pid::SERVER_KEEP_ALIVE, x));
        }
    }
    // a failure CONNACK never has session present ([MQTT-3.2.2-6])
    AP::Connack { v, sp: a.sp && code == 0, code, props }
}

pub fn payload_of(tag: u32, plen: u8) -> Vec<u8> {
    let n = match plen % 6 {
        0 => 0usize,
        1 => 1,
        2 => 10,
        3 => 100,
        4 => 127,
        _ => 300,
    };
    let mut v = tag.to_be_bytes().to_vec();
    v.extend((0..n).map(|i| (i as u8).wrapping_mul(3)));
    v
}

/// `UseLive(k)` becomes `Use(a)` with a the k-th alias bound on this connection in that direction (alias 1 when none is)
pub fn resolve_alias(m: AliasMode, bound: &BTreeSet<u16>) -> AliasMode {
    match m {
        AliasMode::UseLive(k) => AliasMode::Use(nth16(bound, k).unwrap_or(1)),
        other => other,
    }
}

fn nth16(s: &BTreeSet<u16>, k: u16) -> Option<u16> {
    if s.is_empty() {
        return None;
    }
    s.iter().nth(crate::engine::pick_idx(k, s.len())).copied()
}

pub fn publish_ap(v: V, qos: u8, dup: bool, retain: bool, topic: u8, alias: AliasMode, pid: Option<u32>, payload: Vec<u8>) -> AP {
    let t = TOPICS[topic as usize % TOPICS.len()].to_string();
    let (topic, props) = match (v, alias) {
        (V::V5, AliasMode::Bind(a)) => (t, vec![Prop::u16(pid::TOPIC_ALIAS, a)]),
        (V::V5, AliasMode::Use(a)) | (V::V5, AliasMode::UseLive(a)) => (String::new(), vec![Prop::u16(pid::TOPIC_ALIAS, a)]),
        _ => (t, vec![]),
    };
    AP::Publish { v, dup, qos, retain, topic, pid: if qos > 0 { pid } else { None }, props, payload }
}

/// `publish_ap` plus, for plen >= 6 under v5.0, a User Property sized so that the other properties take 121..130 bytes:
/// adding or removing the 3-byte Topic Alias property then moves the Property Length across the 127/128 boundary
pub fn publish_ap_plen(v: V, qos: u8, dup: bool, retain: bool, topic: u8, alias: AliasMode, pid: Option<u32>, tag: u32, plen: u8) -> AP {
    let mut ap = publish_ap(v, qos, dup, retain, topic, alias, pid, payload_of(tag, plen));
    if v == V::V5 && plen >= 6 {
        if let AP::Publish { props, .. } = &mut ap {
            let n = 114 + (plen as usize / 6).min(10);
            props.insert(0, Prop { id: pid::USER_PROPERTY, val: PVal::Pair("k".into(), "u".repeat(n)) });
        }
    }
    ap
}

pub fn ack_ap(v: V, kind: AckKind, pid: u32, rc: u8) -> AP {
    let rcs = crate::gen::ack_rcs(kind);
    match v {
        V::V311 => AP::Ack { v, kind, pid, rc: None, props: None },
        V::V5 => {
            if rc == 0 {
                AP::Ack { v, kind, pid, rc: None, props: None }
            } else if rc < 16 {
                AP::Ack { v, kind, pid, rc: Some(rcs[rc as usize % rcs.len()]), props: None }
            } else {
                // rc >= 16: an acknowledgement that carries properties (Reason String and/or User Property), so that
                // its size is not the minimal 4..6 bytes
                let code = if rc & 0x0f == 0 { rcs[0] } else { rcs[(rc & 0x0f) as usize % rcs.len()] };
                let mut props = Vec::new();
                if (rc >> 4) & 1 == 1 {
                    props.push(Prop { id: pid::REASON_STRING, val: PVal::Str("r".repeat(8 + (rc & 7) as usize * 3)) });
                }
                if (rc >> 4) & 2 == 2 {
                    props.push(Prop { id: pid::USER_PROPERTY, val: PVal::Pair("k".into(), "v".repeat(1 + (rc & 3) as usize * 5)) });
                }
                AP::Ack { v, kind, pid, rc: Some(code), props: Some(props) }
            }
        }
    }
}

/// DISCONNECT of an op: rc 0 = shortest form; 1..=15 = a reason code; >= 16 = Normal disconnection with a Reason String of
/// 90 + 3 * (rc - 16) characters, so that the Remaining Length straddles the one-byte / two-byte boundary
pub fn disconnect_ap(v: V, rc: u8) -> AP {
    match v {
        V::V311 => AP::Disconnect { v, rc: None, props: None },
        V::V5 if rc == 0 => AP::Disconnect { v, rc: None, props: None },
        V::V5 if rc < 16 => AP::Disconnect { v, rc: Some(crate::gen::DISCONNECT_RC[rc as usize % crate::gen::DISCONNECT_RC.len()]), props: None },
        V::V5 => AP::Disconnect { v, rc: Some(0), props: Some(vec![Prop { id: pid::REASON_STRING, val: PVal::Str("d".repeat(90 + 3 * (rc as usize - 16))) }]) },
    }
}

/// Every packet requested for sending is a well-formed encoding of its own field values: size() equals the number of bytes
/// and the bytes are exactly what the independent reference encoder writes for the values read back through the public
/// accessors (catches lengths that went stale in a rewrite / store / resend path).
pub fn check_wire(prop: &str, st: &Step, idw: usize) -> Result<(), crate::engine::Fail> {
    for e in &st.events {
        if let NEvent::Send { ap, size, bytes, .. } = e {
            let reference = refcodec::encode(ap, idw);
            if *size != bytes.len() || *bytes != reference {
                let d = bytes.iter().zip(reference.iter()).position(|(x, y)| x != y).unwrap_or(bytes.len().min(reference.len()));
                return Err(crate::engine::Fail::new(
                    &format!("{prop}.sent_bytes_ne_reference"),
                    format!("{}/{}", ap.version().name(), ap.kind_name()),
                    format!("{} requested for sending: size() {} / {} bytes on the wire, reference encoding of the same field values {} bytes, first difference at offset {d}: wire {} reference {}", ap.brief(), size, bytes.len(), reference.len(), crate::util::hex_trunc(bytes, 48), crate::util::hex_trunc(&reference, 48)),
                ));
            }
        }
    }
    Ok(())
}

/// packet ids of an abstract packet reduced to what `idw` bytes can carry
pub fn clamp_ap_ids(ap: &AP, idw: usize) -> AP {
    if idw != 2 {
        return ap.clone();
    }
    let mut a = ap.clone();
    match &mut a {
        AP::Publish { pid: Some(p), .. } => *p &= 0xffff,
        AP::Ack { pid, .. } | AP::Subscribe { pid, .. } | AP::Suback { pid, .. } | AP::Unsubscribe { pid, .. } | AP::Unsuback { pid, .. } => *pid &= 0xffff,
        _ => {}
    }
    a
}

pub struct World {
    pub c: Box<dyn Conn>,
    pub t: Tracker,
    pub app: App,
    pub chunk: u8,
    pub steps: Vec<Step>,
    /// stop executing further ops (after a panic)
    pub dead: bool,
    /// contract mode: once the library requested the close, no more peer bytes are fed until notify_closed
    pub strict_close: bool,
    /// a well-behaved peer and handshake discipline (fuzz-decoded histories for the model checks): CONNECT only on a
    /// fresh transport, CONNACK only in answer to a CONNECT, everything else only on an established connection
    pub peer_discipline: bool,
}

fn nth<T: Copy + Ord>(set: &BTreeSet<T>, k: u16) -> Option<T> {
    if set.is_empty() {
        None
    } else {
        set.iter().nth(pick_idx(k, set.len())).copied()
    }
}

impl World {
    pub fn new(cfg: ConnCfg) -> World {
        World { c: new_conn(cfg), t: Tracker::new(cfg), app: App::default(), chunk: 0, steps: Vec::new(), dead: false, strict_close: true, peer_discipline: false }
    }

    pub fn v(&self) -> V {
        self.t.v.unwrap_or(V::V5)
    }

    fn resolve_id(&mut self, src: IdSrc, pre: &mut Vec<(Call, Vec<NEvent>)>) -> Option<u32> {
        match src {
            IdSrc::Acquire => match self.c.acquire() {
                Ok(Ok(id)) => {
                    pre.push((Call::Acquire(Ok(id)), vec![]));
                    Some(id)
                }
                Ok(Err(e)) => {
                    pre.push((Call::Acquire(Err(e)), vec![]));
                    None
                }
                Err(_) => None,
            },
            IdSrc::Register(v) => {
                let v = self.clamp_id(v).max(1);
                match self.c.register(v) {
                    Ok(r) => {
                        let ok = r.is_ok();
                        pre.push((Call::Register(v, r), vec![]));
                        if ok {
                            Some(v)
                        } else {
                            None
                        }
                    }
                    Err(_) => None,
                }
            }
            IdSrc::Held(k) => nth(&self.app.held, k),
            IdSrc::Free(v) => {
                let v = self.clamp_id(v).max(1);
                if self.app.held.contains(&v) || self.app.all_out().contains(&v) {
                    None
                } else {
                    Some(v)
                }
            }
        }
    }

    pub fn clamp_id(&self, v: u32) -> u32 {
        if self.t.cfg.idw == 2 {
            v & 0xffff
        } else {
            v
        }
    }

    fn sel_from(&self, sel: Sel, right: &[&BTreeSet<u32>], wrong: &[&BTreeSet<u32>]) -> u32 {
        let union = |sets: &[&BTreeSet<u32>]| -> BTreeSet<u32> { sets.iter().flat_map(|s| s.iter().cloned()).collect() };
        match sel {
            Sel::Live(k) => nth(&union(right), k).unwrap_or(1),
            Sel::LiveOnly(k) => nth(&union(right), k).unwrap_or(0),
            Sel::Wrong(k) => nth(&union(wrong), k).unwrap_or(2),
            Sel::Arb(v) => self.clamp_id(v),
        }
    }

    /// Resolve an op to a concrete call, execute it, update tracker and app view, record the step.
    pub fn exec(&mut self, op: &Op) -> &Step {
        let idx = self.steps.len();
        let v = self.v();
        let mut pre: Vec<(Call, Vec<NEvent>)> = Vec::new();
        let mut st = Step { idx, op: op.clone(), call: Call::Skipped(String::new()), events: vec![], calls: vec![], panic: None, wedge: None, pre: vec![], new_session: false };
        enum Act {
            Send(AP),
            Recv(Vec<u8>, Option<AP>),
            Other,
            Skip(&'static str),
        }
        let a = &self.app;
        let act: Act = if self.dead {
            Act::Skip("dead")
        } else {
            match op {
                Op::Connect(args) => {
                    if self.t.cfg.role == Role::Server || self.t.cfg.ver == CVer::Undetermined {
                        Act::Skip("role cannot connect")
                    } else if !(self.t.status == St::Disconnected && self.t.closed_reported) {
                        Act::Skip("not closed")
                    } else {
                        Act::Send(connect_ap(v, args))
                    }
                }
                Op::Connack(args) => Act::Send(connack_ap(v, args)),
                Op::Publish { qos, topic, alias, plen, retain, id } => {
                    let pid = if *qos > 0 { self.resolve_id(*id, &mut pre) } else { None };
                    if *qos > 0 && pid.is_none() {
                        Act::Skip("no id")
                    } else {
                        self.app.tag += 1;
                        let alias = resolve_alias(*alias, &self.app.alias_out);
                        Act::Send(publish_ap_plen(v, *qos, false, *retain, *topic, alias, pid, self.app.tag, *plen))
                    }
                }
                Op::Subscribe { id, n } => match self.resolve_id(*id, &mut pre) {
                    Some(pid) => Act::Send(AP::Subscribe { v, pid, props: vec![], entries: (0..(*n % 3 + 1)).map(|i| (TOPICS[i as usize].to_string(), i % 3)).collect() }),
                    None => Act::Skip("no id"),
                },
                Op::Unsubscribe { id, n } => match self.resolve_id(*id, &mut pre) {
                    Some(pid) => Act::Send(AP::Unsubscribe { v, pid, props: vec![], topics: (0..(*n % 3 + 1)).map(|i| TOPICS[i as usize].to_string()).collect() }),
                    None => Act::Skip("no id"),
                },
                Op::Suback { sel } => {
                    let keys: BTreeSet<u32> = a.sub_recv.keys().cloned().collect();
                    let id = self.sel_from(*sel, &[&keys], &[&a.in_q1]);
                    let n = a.sub_recv.get(&id).cloned().unwrap_or(1).max(1);
                    Act::Send(AP::Suback { v, pid: id.max(1), props: vec![], codes: vec![0; n] })
                }
                Op::Unsuback { sel } => {
                    let keys: BTreeSet<u32> = a.unsub_recv.keys().cloned().collect();
                    let id = self.sel_from(*sel, &[&keys], &[&a.in_q1]);
                    let n = a.unsub_recv.get(&id).cloned().unwrap_or(1).max(1);
                    Act::Send(AP::Unsuback { v, pid: id.max(1), props: vec![], codes: if v == V::V5 { vec![0; n] } else { vec![] } })
                }
                Op::Ack { kind, sel, rc } => {
                    let id = match kind {
                        AckKind::Puback => self.sel_from(*sel, &[&a.in_q1], &[&a.in_q2_rec, &a.in_q2_comp]),
                        AckKind::Pubrec => self.sel_from(*sel, &[&a.in_q2_rec], &[&a.in_q1]),
                        AckKind::Pubcomp => self.sel_from(*sel, &[&a.in_q2_comp], &[&a.in_q1, &a.in_q2_rec]),
                        // a PUBREL is only sent for an exchange whose PUBREC arrived, for an unused id the
                        // application holds, or for an id that is not in use at all (refused): sending it for an
                        // exchange in another phase is application misuse, not peer-controlled input
                        AckKind::Pubrel => {
                            let id = self.sel_from(*sel, &[&a.out_q2_rel], &[&a.out_q2_rel]);
                            if a.held.contains(&id) || a.out_q1.contains(&id) || a.out_q2_rec.contains(&id) || a.out_q2_comp.contains(&id) || a.sub_pending.contains(&id) || a.unsub_pending.contains(&id) {
                                0
                            } else {
                                id
                            }
                        }
                    };
                    if id == 0 {
                        Act::Skip("id owned by another exchange")
                    } else {
                        Act::Send(ack_ap(v, *kind, id, *rc))
                    }
                }
                Op::Pingreq => Act::Send(AP::Pingreq { v }),
                Op::Pingresp => Act::Send(AP::Pingresp { v }),
                Op::Disconnect { rc } => Act::Send(disconnect_ap(v, *rc)),
                Op::Auth { rc } => {
                    let r = crate::gen::AUTH_RC[*rc as usize % 3];
                    Act::Send(AP::Auth { rc: Some(r), props: Some(vec![Prop { id: pid::AUTHENTICATION_METHOD, val: PVal::Str("m".into()) }]) })
                }
                Op::AcquireId | Op::RegisterId { .. } | Op::ReleaseId { .. } | Op::Erase { .. } | Op::SetOpt(_) | Op::Closed => Act::Other,
                Op::Fire(k) => {
                    if self.t.armed.contains(k) {
                        Act::Other
                    } else {
                        Act::Skip("timer not armed")
                    }
                }
                Op::Chunk(k) => {
                    self.chunk = *k;
                    Act::Skip("chunking set")
                }
                // ---- peer
                Op::PeerConnect(args) => {
                    let ap = connect_ap(v, args);
                    Act::Recv(refcodec::encode(&ap, self.t.cfg.idw), Some(ap))
                }
                Op::PeerConnack(args) => {
                    let ap = connack_ap(v, args);
                    Act::Recv(refcodec::encode(&ap, self.t.cfg.idw), Some(ap))
                }
                Op::PeerPublish { qos, id, dup, topic, alias, plen } => {
                    let seen: BTreeSet<u32> = a.peer_ids_seen.iter().cloned().collect();
                    let pid = if *qos > 0 { Some(self.sel_from(*id, &[&seen], &[&a.in_q2_comp]).max(1)) } else { None };
                    self.app.tag += 1;
                    let alias = resolve_alias(*alias, &self.app.alias_in);
                    let ap = publish_ap(v, *qos, *dup, false, *topic, alias, pid, payload_of(self.app.tag | 0x8000_0000, *plen));
                    Act::Recv(refcodec::encode(&ap, self.t.cfg.idw), Some(ap))
                }
                Op::PeerAck { kind, sel, rc } => {
                    let id = match kind {
                        AckKind::Puback => self.sel_from(*sel, &[&a.out_q1], &[&a.out_q2_rec, &a.out_q2_comp, &a.sub_pending]),
                        AckKind::Pubrec => self.sel_from(*sel, &[&a.out_q2_rec], &[&a.out_q1, &a.out_q2_comp]),
                        AckKind::Pubcomp => self.sel_from(*sel, &[&a.out_q2_comp], &[&a.out_q1, &a.out_q2_rec, &a.out_q2_rel]),
                        AckKind::Pubrel => {
                            let seen: BTreeSet<u32> = a.peer_ids_seen.iter().cloned().collect();
                            self.sel_from(*sel, &[&seen], &[&a.out_q1])
                        }
                    };
                    if id == 0 && matches!(sel, Sel::LiveOnly(_)) {
                        Act::Skip("nothing in flight for this acknowledgement")
                    } else {
                        let ap = ack_ap(v, *kind, id.max(1), *rc);
                        Act::Recv(refcodec::encode(&ap, self.t.cfg.idw), Some(ap))
                    }
                }
                Op::PeerSubscribe { id, n } => {
                    let ap = AP::Subscribe { v, pid: self.clamp_id(*id).max(1), props: vec![], entries: (0..(*n % 3 + 1)).map(|i| (TOPICS[i as usize].to_string(), i % 3)).collect() };
                    Act::Recv(refcodec::encode(&ap, self.t.cfg.idw), Some(ap))
                }
                Op::PeerUnsubscribe { id, n } => {
                    let ap = AP::Unsubscribe { v, pid: self.clamp_id(*id).max(1), props: vec![], topics: (0..(*n % 3 + 1)).map(|i| TOPICS[i as usize].to_string()).collect() };
                    Act::Recv(refcodec::encode(&ap, self.t.cfg.idw), Some(ap))
                }
                Op::PeerSuback { sel } => {
                    let id = self.sel_from(*sel, &[&a.sub_pending], &[&a.unsub_pending, &a.out_q1]);
                    if id == 0 && matches!(sel, Sel::LiveOnly(_)) {
                        Act::Skip("no SUBSCRIBE pending")
                    } else {
                        let ap = AP::Suback { v, pid: id.max(1), props: vec![], codes: vec![0] };
                        Act::Recv(refcodec::encode(&ap, self.t.cfg.idw), Some(ap))
                    }
                }
                Op::PeerUnsuback { sel } => {
                    let id = self.sel_from(*sel, &[&a.unsub_pending], &[&a.sub_pending, &a.out_q1]);
                    if id == 0 && matches!(sel, Sel::LiveOnly(_)) {
                        Act::Skip("no UNSUBSCRIBE pending")
                    } else {
                        let ap = AP::Unsuback { v, pid: id.max(1), props: vec![], codes: if v == V::V5 { vec![0] } else { vec![] } };
                        Act::Recv(refcodec::encode(&ap, self.t.cfg.idw), Some(ap))
                    }
                }
                Op::PeerPingreq => {
                    let ap = AP::Pingreq { v };
                    Act::Recv(refcodec::encode(&ap, 2), Some(ap))
                }
                Op::PeerPingresp => {
                    let ap = AP::Pingresp { v };
                    Act::Recv(refcodec::encode(&ap, 2), Some(ap))
                }
                Op::PeerDisconnect { rc } => {
                    let ap = disconnect_ap(v, *rc);
                    Act::Recv(refcodec::encode(&ap, 2), Some(ap))
                }
                Op::PeerAuth { rc } => {
                    let r = crate::gen::AUTH_RC[*rc as usize % 3];
                    let ap = AP::Auth { rc: Some(r), props: Some(vec![Prop { id: pid::AUTHENTICATION_METHOD, val: PVal::Str("m".into()) }]) };
                    Act::Recv(refcodec::encode(&ap, 2), Some(ap))
                }
                Op::PeerRaw(b) => Act::Recv(b.clone(), None),
                Op::PeerPacket(ap) => {
                    let ap = clamp_ap_ids(ap, self.t.cfg.idw);
                    Act::Recv(refcodec::encode(&ap, self.t.cfg.idw), Some(ap))
                }
            }
        };
        let act = match act {
            Act::Recv(..) if self.strict_close && self.t.close_requested => Act::Skip("transport is being closed"),
            a => a,
        };
        let act = if self.peer_discipline {
            let t = &self.t;
            let ok = match op {
                Op::PeerConnect(_) => t.status == St::Disconnected && t.closed_reported && t.cfg.role != Role::Client,
                Op::PeerConnack(_) => t.status == St::Connecting && t.as_client,
                Op::Connack(_) => t.status == St::Connecting && !t.as_client,
                // the peer also respects the direction rules of MQTT: a server never sends SUBSCRIBE / UNSUBSCRIBE / PINGREQ,
                // a client never sends SUBACK / UNSUBACK / PINGRESP
                Op::PeerSubscribe { .. } | Op::PeerUnsubscribe { .. } | Op::PeerPingreq => t.status == St::Connected && !t.as_client,
                Op::PeerSuback { .. } | Op::PeerUnsuback { .. } | Op::PeerPingresp => t.status == St::Connected && t.as_client,
                Op::PeerPublish { .. } | Op::PeerAck { .. } | Op::PeerDisconnect { .. } | Op::PeerAuth { .. } | Op::PeerRaw(_) | Op::PeerPacket(_) => t.status == St::Connected,
                _ => true,
            };
            match act {
                Act::Skip(w) => Act::Skip(w),
                _ if !ok => Act::Skip("outside the handshake discipline"),
                a => a,
            }
        } else {
            act
        };
        match act {
            Act::Skip(why) => st.call = Call::Skipped(why.to_string()),
            Act::Send(ap) => match self.c.send(&ap) {
                Err(e) => st.call = Call::Unbuildable(e),
                Ok(Ok(evs)) => {
                    st.call = Call::Send(ap);
                    st.events = evs;
                }
                Ok(Err(pm)) => {
                    st.call = Call::Send(ap);
                    st.panic = Some(pm);
                }
            },
            Act::Recv(bytes, ap) => {
                let pieces: Vec<&[u8]> = if self.chunk == 0 { vec![&bytes[..]] } else { bytes.chunks(self.chunk as usize).collect() };
                for p in pieces {
                    match recv_all(self.c.as_mut(), p) {
                        Ok(calls) => st.calls.extend(calls),
                        Err(e) => {
                            if e.starts_with("WEDGE") {
                                st.wedge = Some(e);
                            } else {
                                st.panic = Some(e);
                            }
                            break;
                        }
                    }
                }
                st.events = flat(&st.calls);
                st.call = Call::Recv { bytes, ap };
            }
            Act::Other => match op {
                Op::AcquireId => match self.c.acquire() {
                    Ok(r) => st.call = Call::Acquire(r),
                    Err(pm) => {
                        st.call = Call::Acquire(Err("panic".into()));
                        st.panic = Some(pm);
                    }
                },
                Op::RegisterId { v } => {
                    let v = self.clamp_id(*v);
                    match self.c.register(v) {
                        Ok(r) => st.call = Call::Register(v, r),
                        Err(pm) => {
                            st.call = Call::Register(v, Err("panic".into()));
                            st.panic = Some(pm);
                        }
                    }
                }
                Op::ReleaseId { sel } => {
                    // the application may release ids it holds, ids the library told it to release on a send
                    // error, and (harmlessly) values that are not in use; never an id owned by a live exchange
                    let id = self.sel_from(*sel, &[&self.app.held, &self.app.releasable], &[&self.app.releasable]);
                    let owned = self.app.all_out().contains(&id) && !self.app.releasable.contains(&id);
                    if owned {
                        st.call = Call::Skipped("id owned by a live exchange".into());
                    } else {
                        st.call = Call::Release(id);
                        match self.c.release(id) {
                            Ok(e) => st.events = e,
                            Err(pm) => st.panic = Some(pm),
                        }
                    }
                }
                Op::Erase { sel } => {
                    let id = self.sel_from(*sel, &[&self.app.out_q1, &self.app.out_q2_rec], &[&self.app.out_q2_comp, &self.app.held, &self.app.sub_pending]);
                    st.call = Call::Erase(id);
                    match self.c.erase_stored_publish(id) {
                        Ok(e) => st.events = e,
                        Err(pm) => st.panic = Some(pm),
                    }
                }
                Op::SetOpt(o) => {
                    st.call = Call::SetOpt(*o);
                    match o {
                        Opt::AutoPub(b) => self.c.set_auto_pub_response(*b),
                        Opt::AutoPing(b) => self.c.set_auto_ping_response(*b),
                        Opt::AutoMap(b) => self.c.set_auto_map(*b),
                        Opt::AutoReplace(b) => self.c.set_auto_replace(*b),
                        Opt::Offline(b) => self.c.set_offline_publish(*b),
                        Opt::PingrespTimeout(ms) => self.c.set_pingresp_recv_timeout(*ms),
                        Opt::PingInterval(i) => match self.c.set_pingreq_send_interval(*i) {
                            Ok(e) => st.events = e,
                            Err(pm) => st.panic = Some(pm),
                        },
                    }
                }
                Op::Fire(k) => {
                    st.call = Call::Timer(*k);
                    match self.c.timer(*k) {
                        Ok(e) => st.events = e,
                        Err(pm) => st.panic = Some(pm),
                    }
                }
                Op::Closed => {
                    st.call = Call::Closed;
                    match self.c.closed() {
                        Ok(e) => st.events = e,
                        Err(pm) => st.panic = Some(pm),
                    }
                }
                _ => {}
            },
        }
        st.events = normalise(std::mem::take(&mut st.events));
        st.pre = pre;
        if st.panic.is_some() {
            self.dead = true;
        }
        let new_session = self.t.update(&st);
        st.new_session = new_session;
        if new_session {
            self.app.new_session();
        }
        self.app.update(&st, self.t.auto_pub);
        self.steps.push(st);
        self.steps.last().unwrap()
    }

    pub fn tail(&self, n: usize) -> String {
        let from = self.steps.len().saturating_sub(n);
        self.steps[from..].iter().map(|s| s.brief()).collect::<Vec<_>>().join("\n  ")
    }
}

// ------------------------------------------------------------------------------------------ strategies

pub fn opt_u16(vals: Vec<u16>) -> BoxedStrategy<Option<u16>> {
    prop_oneof![2 => Just(None), 3 => proptest::sample::select(vals).prop_map(Some)].boxed()
}

pub fn hs_props(v5: bool) -> BoxedStrategy<HsProps> {
    if !v5 {
        return Just(HsProps::default()).boxed();
    }
    (
        opt_u16(vec![1, 2, 3, 65535]),
        opt_u16(vec![0, 1, 2, 5]),
        prop_oneof![4 => Just(None), 1 => (1u32..9).prop_map(Some), 2 => (20u32..60).prop_map(Some), 1 => Just(Some(100_000u32))],
        prop_oneof![2 => Just(None), 1 => Just(Some(0u32)), 2 => Just(Some(300u32)), 1 => Just(Some(u32::MAX))],
        prop_oneof![3 => Just(None), 1 => Just(Some(0u16)), 1 => Just(Some(7u16))],
    )
        .prop_map(|(rm, tam, mps, sei, ska)| HsProps { rm, tam, mps, sei, ska })
        .boxed()
}

pub fn connect_args(v5: bool) -> BoxedStrategy<ConnectArgs> {
    (any::<bool>(), prop_oneof![Just(0u16), Just(10u16), Just(1u16), Just(65535u16)], hs_props(v5))
        .prop_map(|(clean, keep_alive, mut p)| {
            p.ska = None;
            ConnectArgs { clean, keep_alive, p }
        })
        .boxed()
}

pub fn connack_args(v5: bool) -> BoxedStrategy<ConnackArgs> {
    (any::<bool>(), prop_oneof![9 => Just(0u8), 1 => 1u8..7], hs_props(v5))
        .prop_map(|(sp, fail, p)| {
            ConnackArgs { sp, fail, p }
        })
        .boxed()
}

/// number of generated CONNACKs from which the D23 trigger was removed
pub static EXCLUDED_D23: std::sync::atomic::AtomicU64 = std::sync::atomic::AtomicU64::new(0);

pub fn alias_mode(max: u16) -> BoxedStrategy<AliasMode> {
    prop_oneof![
        5 => Just(AliasMode::None),
        2 => (0u16..=max + 1).prop_map(AliasMode::Bind),
        2 => (0u16..=max + 1).prop_map(AliasMode::Use),
    ]
    .boxed()
}

pub fn id_src() -> BoxedStrategy<IdSrc> {
    prop_oneof![
        6 => Just(IdSrc::Acquire),
        2 => any::<u16>().prop_map(IdSrc::Held),
        1 => prop_oneof![Just(1u32), Just(2), Just(65535), Just(u32::MAX), 1u32..20].prop_map(IdSrc::Register),
        1 => prop_oneof![Just(1u32), Just(7), Just(65535), 1u32..20].prop_map(IdSrc::Free),
    ]
    .boxed()
}

pub fn sel() -> BoxedStrategy<Sel> {
    prop_oneof![
        6 => any::<u16>().prop_map(Sel::LiveOnly),
        1 => any::<u16>().prop_map(Sel::Live),
        1 => any::<u16>().prop_map(Sel::Wrong),
        1 => prop_oneof![Just(1u32), Just(2), Just(3), Just(65535), Just(u32::MAX), 1u32..12].prop_map(Sel::Arb),
    ]
    .boxed()
}

pub fn sel_live() -> BoxedStrategy<Sel> {
    any::<u16>().prop_map(Sel::Live).boxed()
}
