//! History generator (phase-structured op sequences) and the observer run loop.

use crate::ap::*;
use crate::conn::*;
use crate::engine::{Fail, Stats, R};
use crate::scn::*;
use proptest::prelude::*;
use serde::{Deserialize, Serialize};

/// Weights of the body-op families (0 = never).
#[derive(Clone, Copy, Debug)]
pub struct Profile {
    pub publish: u32,
    pub peer_publish: u32,
    pub ack: u32,
    pub peer_ack: u32,
    pub sub: u32,
    pub ping: u32,
    pub auth: u32,
    pub ids: u32,
    pub erase: u32,
    pub opts: u32,
    pub timers: u32,
    pub chunk: u32,
    /// arbitrary / mutated peer bytes and boundary-valued packets
    pub hostile: u32,
    /// a CONNECT / CONNACK in the middle of an established connection
    pub rehandshake: u32,
    /// local sends while disconnected (before the handshake)
    pub offline_ops: u32,
    pub max_alias: u16,
    pub max_body: usize,
    pub max_segments: usize,
    /// failure CONNACKs and refused handshakes
    pub hs_failures: bool,
    /// only acknowledgements that match something live
    pub acks_live_only: bool,
    /// local publishes may use an alias with an empty topic
    pub alias_use: bool,
    /// the peer (almost) always announces a small Receive Maximum (v5)
    pub rm_small: bool,
    /// Maximum Packet Size limits are placed at size-1 / size / size+1 / size+3 of a packet the history will send or receive
    pub mps_near: bool,
    /// the peer announces a Topic Alias Maximum > 0 in most connections and local publishes mostly bind / use aliases (C13)
    pub alias_heavy: bool,
}

impl Profile {
    pub fn general() -> Profile {
        Profile {
            publish: 10,
            peer_publish: 8,
            ack: 6,
            peer_ack: 10,
            sub: 4,
            ping: 3,
            auth: 1,
            ids: 3,
            erase: 1,
            opts: 2,
            timers: 3,
            chunk: 1,
            hostile: 0,
            rehandshake: 1,
            offline_ops: 2,
            max_alias: 3,
            max_body: 25,
            max_segments: 3,
            hs_failures: true,
            acks_live_only: false,
            alias_use: true,
            rm_small: false,
            mps_near: false,
            alias_heavy: false,
        }
    }
}

#[derive(Clone, Debug, PartialEq, Eq, Serialize, Deserialize)]
pub struct History {
    pub cfg: ConnCfg,
    pub ops: Vec<Op>,
    /// executed with World::peer_discipline (fuzz-decoded histories of the model checks)
    #[serde(default)]
    pub disciplined: bool,
}

pub fn cfg_strategy(undetermined: bool) -> BoxedStrategy<ConnCfg> {
    (
        proptest::sample::select(vec![Role::Client, Role::Server, Role::Any]),
        proptest::sample::select(vec![CVer::V311, CVer::V5]),
        prop_oneof![4 => Just(2usize), 1 => Just(4usize)],
        0u8..8,
    )
        .prop_map(move |(role, ver, idw, u)| {
            let ver = if undetermined && role == Role::Server && u == 0 { CVer::Undetermined } else { ver };
            ConnCfg { role, ver, idw }
        })
        .boxed()
}

fn opt_strategy() -> BoxedStrategy<Opt> {
    prop_oneof![
        any::<bool>().prop_map(Opt::AutoPub),
        any::<bool>().prop_map(Opt::AutoPing),
        any::<bool>().prop_map(Opt::AutoMap),
        any::<bool>().prop_map(Opt::AutoReplace),
        any::<bool>().prop_map(Opt::Offline),
        prop_oneof![Just(0u64), Just(5000u64)].prop_map(Opt::PingrespTimeout),
        prop_oneof![Just(None), Just(Some(0u64)), Just(Some(3000u64))].prop_map(Opt::PingInterval),
    ]
    .boxed()
}

fn w(n: u32) -> u32 {
    n
}

/// One body op for a connection acting as client (`as_client`) of version v5?
pub fn body_op(p: Profile, as_client: bool, v5: bool, hostile: BoxedStrategy<Op>) -> BoxedStrategy<Op> {
    let s = if p.acks_live_only { sel_live() } else { sel() };
    let mut alts: Vec<(u32, BoxedStrategy<Op>)> = Vec::new();
    let am = if v5 { alias_mode(p.max_alias) } else { Just(AliasMode::None).boxed() };
    let am = if v5 && p.alias_heavy {
        prop_oneof![3 => am.clone(), 3 => (1u16..=p.max_alias.max(1)).prop_map(AliasMode::Bind), 1 => (1u16..=p.max_alias.max(1)).prop_map(AliasMode::Use), 4 => any::<u16>().prop_map(AliasMode::UseLive)].boxed()
    } else {
        am
    };
    let am_local = if p.alias_use { am.clone() } else { am.clone().prop_map(|a| if let AliasMode::Use(_) | AliasMode::UseLive(_) = a { AliasMode::None } else { a }).boxed() };
    if p.publish > 0 {
        alts.push((
            w(p.publish),
            (0u8..=2, 0u8..4, am_local, if p.alias_heavy { prop_oneof![5 => 0u8..6, 1 => 6u8..66].boxed() } else { (0u8..6).boxed() }, any::<bool>(), id_src())
                .prop_map(|(qos, topic, alias, plen, retain, id)| Op::Publish { qos, topic, alias, plen, retain, id })
                .boxed(),
        ));
    }
    if p.peer_publish > 0 {
        alts.push((
            w(p.peer_publish),
            (0u8..=2, prop_oneof![3 => (1u32..5).prop_map(Sel::Arb), 1 => Just(Sel::Arb(65535)), 2 => any::<u16>().prop_map(Sel::Live)], any::<bool>(), 0u8..4, am, 0u8..6)
                .prop_map(|(qos, id, dup, topic, alias, plen)| Op::PeerPublish { qos, id, dup, topic, alias, plen })
                .boxed(),
        ));
    }
    if p.ack > 0 {
        alts.push((
            w(p.ack),
            (proptest::sample::select(ALL_ACKS.to_vec()), s.clone(), prop_oneof![8 => Just(0u8), 2 => 1u8..9, (if p.mps_near { 5 } else { 1 }) => 16u8..64]).prop_map(|(kind, sel, rc)| Op::Ack { kind, sel, rc }).boxed(),
        ));
    }
    if p.peer_ack > 0 {
        alts.push((
            w(p.peer_ack),
            (proptest::sample::select(ALL_ACKS.to_vec()), s.clone(), prop_oneof![8 => Just(0u8), 2 => 1u8..9, 1 => 16u8..64]).prop_map(|(kind, sel, rc)| Op::PeerAck { kind, sel, rc }).boxed(),
        ));
    }
    if p.sub > 0 {
        if as_client {
            alts.push((
                w(p.sub),
                prop_oneof![
                    (id_src(), 0u8..3).prop_map(|(id, n)| Op::Subscribe { id, n }),
                    (id_src(), 0u8..3).prop_map(|(id, n)| Op::Unsubscribe { id, n }),
                    s.clone().prop_map(|sel| Op::PeerSuback { sel }),
                    s.clone().prop_map(|sel| Op::PeerUnsuback { sel }),
                ]
                .boxed(),
            ));
        } else {
            alts.push((
                w(p.sub),
                prop_oneof![
                    (1u32..6, 0u8..3).prop_map(|(id, n)| Op::PeerSubscribe { id, n }),
                    (1u32..6, 0u8..3).prop_map(|(id, n)| Op::PeerUnsubscribe { id, n }),
                    s.clone().prop_map(|sel| Op::Suback { sel }),
                    s.clone().prop_map(|sel| Op::Unsuback { sel }),
                ]
                .boxed(),
            ));
        }
    }
    if p.ping > 0 {
        alts.push((w(p.ping), if as_client { prop_oneof![Just(Op::Pingreq), Just(Op::PeerPingresp)].boxed() } else { prop_oneof![Just(Op::PeerPingreq), Just(Op::Pingresp)].boxed() }));
    }
    if p.auth > 0 && v5 {
        alts.push((w(p.auth), prop_oneof![(0u8..3).prop_map(|rc| Op::Auth { rc }), (0u8..3).prop_map(|rc| Op::PeerAuth { rc })].boxed()));
    }
    if p.ids > 0 {
        alts.push((
            w(p.ids),
            prop_oneof![
                3 => Just(Op::AcquireId),
                2 => prop_oneof![Just(0u32), Just(1), Just(2), Just(65535), Just(65536), Just(u32::MAX), 1u32..20].prop_map(|v| Op::RegisterId { v }),
                2 => prop_oneof![4 => any::<u16>().prop_map(Sel::Live), 1 => any::<u16>().prop_map(Sel::Wrong), 1 => prop_oneof![Just(0u32), Just(1), Just(65535), Just(u32::MAX)].prop_map(Sel::Arb)].prop_map(|sel| Op::ReleaseId { sel }),
            ]
            .boxed(),
        ));
    }
    if p.erase > 0 {
        alts.push((w(p.erase), s.clone().prop_map(|sel| Op::Erase { sel }).boxed()));
    }
    if p.opts > 0 {
        alts.push((w(p.opts), opt_strategy().prop_map(Op::SetOpt).boxed()));
    }
    if p.timers > 0 {
        alts.push((w(p.timers), proptest::sample::select(ALL_TK.to_vec()).prop_map(Op::Fire).boxed()));
    }
    if p.chunk > 0 {
        alts.push((w(p.chunk), prop_oneof![Just(0u8), Just(1u8), Just(2u8), Just(3u8), Just(7u8)].prop_map(Op::Chunk).boxed()));
    }
    if p.hostile > 0 {
        alts.push((w(p.hostile), hostile));
    }
    if p.rehandshake > 0 {
        alts.push((
            w(p.rehandshake),
            if as_client { connack_args(v5).prop_map(Op::PeerConnack).boxed() } else { connect_args(v5).prop_map(Op::PeerConnect).boxed() },
        ));
    }
    proptest::strategy::Union::new_weighted(alts).boxed()
}

#[derive(Clone, Copy, Debug)]
enum End {
    SendDisconnect,
    PeerDisconnect,
    Garbage,
    Bare,
    KeepOpen,
}

/// ops a contract-respecting application may issue while disconnected
fn offline_op(p: Profile, v5: bool) -> BoxedStrategy<Op> {
    let am = if v5 { alias_mode(p.max_alias) } else { Just(AliasMode::None).boxed() };
    let am = if p.alias_use { am } else { am.prop_map(|a| if let AliasMode::Use(_) | AliasMode::UseLive(_) = a { AliasMode::None } else { a }).boxed() };
    prop_oneof![
        3 => opt_strategy().prop_map(Op::SetOpt),
        3 => (0u8..=2, 0u8..4, am, 0u8..6, any::<bool>(), id_src()).prop_map(|(qos, topic, alias, plen, retain, id)| Op::Publish { qos, topic, alias, plen, retain, id }),
        1 => Just(Op::AcquireId),
        1 => (proptest::sample::select(ALL_ACKS.to_vec()), sel(), Just(0u8)).prop_map(|(kind, sel, rc)| Op::Ack { kind, sel, rc }),
        1 => (id_src(), 0u8..3).prop_map(|(id, n)| Op::Subscribe { id, n }),
        1 => any::<u16>().prop_map(|k| Op::ReleaseId { sel: Sel::Live(k) }),
    ]
    .boxed()
}

fn segment(p: Profile, cfg: ConnCfg, as_client: bool, hostile: BoxedStrategy<Op>) -> BoxedStrategy<Vec<Op>> {
    let v5 = cfg.ver == CVer::V5 || (cfg.ver == CVer::Undetermined);
    let fail_w = if p.hs_failures { 1 } else { 0 };
    let end = prop_oneof![
        3 => Just(End::SendDisconnect),
        2 => Just(End::PeerDisconnect),
        1 => Just(End::Garbage),
        3 => Just(End::Bare),
        2 => Just(End::KeepOpen),
    ];
    let offline = if p.offline_ops > 0 { proptest::collection::vec(offline_op(p, v5), 0..4).boxed() } else { Just(vec![]).boxed() };
    (
        offline,
        connect_args(v5),
        connack_args(v5),
        prop_oneof![9 => Just(false), fail_w => Just(true)],
        proptest::collection::vec(body_op(p, as_client, v5, hostile.clone()), 0..p.max_body),
        end,
        0u8..4,
        0u16..64,
        // hostile handshake: a mutated copy of the peer's CONNECT / CONNACK arrives before the real one
        if p.hostile > 0 { proptest::option::weighted(0.3, proptest::collection::vec(crate::checks::c05::mut_strategy(), 1..3)).boxed() } else { Just(None).boxed() },
        // application / peer activity while the handshake is half done (CONNECT sent or received, CONNACK still missing)
        proptest::option::weighted(0.2, proptest::collection::vec(body_op(p, as_client, v5, hostile), 1..4)),
    )
        .prop_map(move |(pre, mut ca, mut ka, fail, body, end, chunk, small, hostile_hs, mid_hs)| {
            // a well-behaved peer sends nothing but the handshake packet before the connection is established: for the model
            // checks only the application's own calls happen in that window
            let mid_hs: Option<Vec<Op>> = mid_hs.map(|v| {
                v.into_iter()
                    .filter(|o| {
                        p.hostile > 0
                            || !matches!(
                                o,
                                Op::PeerPublish { .. } | Op::PeerAck { .. } | Op::PeerSubscribe { .. } | Op::PeerUnsubscribe { .. } | Op::PeerSuback { .. } | Op::PeerUnsuback { .. } | Op::PeerPingreq | Op::PeerPingresp | Op::PeerDisconnect { .. } | Op::PeerAuth { .. } | Op::PeerRaw(_) | Op::PeerPacket(_) | Op::PeerConnect(_) | Op::PeerConnack(_)
                            )
                    })
                    .collect()
            });
            if p.alias_heavy && v5 && small % 4 != 3 {
                // the Topic Alias Maximum that applies to what this object sends is announced by the peer
                let tam = Some([1u16, 2, 5, 2][(small % 4) as usize]);
                if as_client {
                    ka.p.tam = tam;
                } else {
                    ca.p.tam = tam;
                }
            }
            if p.rm_small && v5 && small % 8 != 7 {
                // the limit that applies to what this object sends is announced by the peer
                if as_client {
                    ka.p.rm = Some(1 + small % 3);
                } else {
                    ca.p.rm = Some(1 + small % 3);
                }
            }
            // a DISCONNECT with a long Reason String at the end of some size-directed connections
            let big_disc: Option<u8> = if p.mps_near && v5 && matches!(end, End::SendDisconnect) && chunk >= 2 { Some(16 + 3 + (small / 8) as u8 * 2 + (chunk - 2)) } else { None };
            if p.mps_near && v5 {
                // size of a packet this history will try to send / will receive
                let local = if let Some(rc) = big_disc { Some(disconnect_ap(V::V5, rc)) } else { None };
                let local = local.or_else(|| body.iter().find_map(|o| match o {
                    Op::Publish { qos, topic, alias, plen, retain, .. } => Some(publish_ap(V::V5, *qos, false, *retain, *topic, *alias, Some(1), payload_of(1, *plen))),
                    Op::Subscribe { n, .. } => Some(AP::Subscribe { v: V::V5, pid: 1, props: vec![], entries: (0..(*n % 3 + 1)).map(|i| (TOPICS[i as usize].to_string(), i % 3)).collect() }),
                    _ => None,
                }));
                let inbound = body.iter().find_map(|o| match o {
                    Op::PeerPublish { qos, topic, alias, plen, dup, .. } => Some(publish_ap(V::V5, *qos, *dup, false, *topic, *alias, Some(1), payload_of(1, *plen))),
                    _ => None,
                });
                let delta = [0i64, -1, 1, 3, 0, 2, -2, 0][(small % 8) as usize];
                if let Some(ap) = local {
                    let sz = crate::refcodec::encode(&ap, cfg.idw).len() as i64 + delta;
                    let lim = Some(sz.max(1) as u32);
                    // the limit for what this object sends is announced by the peer
                    if as_client {
                        ka.p.mps = lim;
                    } else {
                        ca.p.mps = lim;
                    }
                }
                if let (Some(ap), true) = (inbound, small % 2 == 0) {
                    let sz = crate::refcodec::encode(&ap, cfg.idw).len() as i64 + delta;
                    let lim = Some(sz.max(1) as u32);
                    // the limit for what this object receives is announced by itself
                    if as_client {
                        ca.p.mps = lim;
                    } else {
                        ka.p.mps = lim;
                    }
                }
            }
            let mut ops = pre;
            if !fail {
                ka.fail = 0;
            } else if ka.fail == 0 {
                ka.fail = 1;
            }
            if chunk == 1 {
                ops.push(Op::Chunk(2));
            }
            let hv = if v5 { V::V5 } else { V::V311 };
            if as_client {
                ops.push(Op::Connect(ca));
                if let Some(m) = &hostile_hs {
                    ops.push(Op::PeerRaw(crate::checks::c05::mutate_packet(&connack_ap(hv, &ka), cfg.idw, m)));
                }
                ops.extend(mid_hs.clone().unwrap_or_default());
                ops.push(Op::PeerConnack(ka));
            } else {
                if let Some(m) = &hostile_hs {
                    ops.push(Op::PeerRaw(crate::checks::c05::mutate_packet(&connect_ap(hv, &ca), cfg.idw, m)));
                }
                ops.push(Op::PeerConnect(ca));
                ops.extend(mid_hs.clone().unwrap_or_default());
                ops.push(Op::Connack(ka));
            }
            ops.extend(body);
            match end {
                End::SendDisconnect => {
                    ops.push(Op::Disconnect { rc: big_disc.unwrap_or(0) });
                    ops.push(Op::Closed);
                }
                End::PeerDisconnect => {
                    ops.push(Op::PeerDisconnect { rc: 0 });
                    ops.push(Op::Closed);
                }
                End::Garbage => {
                    ops.push(Op::PeerRaw(vec![0x00, 0x00]));
                    ops.push(Op::Closed);
                }
                End::Bare => ops.push(Op::Closed),
                End::KeepOpen => {}
            }
            ops
        })
        .boxed()
}

pub fn history_for(p: Profile, cfg: ConnCfg, hostile: BoxedStrategy<Op>) -> BoxedStrategy<History> {
    let seg = match cfg.role {
        Role::Client => segment(p, cfg, true, hostile.clone()),
        Role::Server => segment(p, cfg, false, hostile.clone()),
        Role::Any => prop_oneof![segment(p, cfg, true, hostile.clone()), segment(p, cfg, false, hostile.clone())].boxed(),
    };
    (opt_prefix(), proptest::collection::vec(seg, 1..=p.max_segments))
        .prop_map(move |(pre, segs)| {
            let mut ops = pre;
            let n = segs.len();
            for (i, mut s) in segs.into_iter().enumerate() {
                // a following segment needs the previous one to be closed
                if i + 1 < n && !matches!(s.last(), Some(Op::Closed)) {
                    s.push(Op::Closed);
                }
                ops.extend(s);
            }
            History { cfg, ops, disciplined: false }
        })
        .boxed()
}

fn opt_prefix() -> BoxedStrategy<Vec<Op>> {
    proptest::collection::vec(opt_strategy().prop_map(Op::SetOpt), 0..4).boxed()
}

pub fn history(p: Profile, undetermined: bool, hostile: BoxedStrategy<Op>) -> BoxedStrategy<History> {
    cfg_strategy(undetermined).prop_flat_map(move |cfg| history_for(p, cfg, hostile.clone())).boxed()
}

pub fn no_hostile() -> BoxedStrategy<Op> {
    Just(Op::Chunk(0)).boxed()
}

// ------------------------------------------------------------------------------------------ run loop

pub trait Observer {
    /// called after every executed step; `pre`/`pre_app` are the tracker / app view before the step
    fn on_step(&mut self, w: &World, pre: &Tracker, pre_app: &App, st: &Step) -> R;
    fn finish(&mut self, _w: &mut World) -> R {
        Ok(())
    }
}

pub enum Outcome {
    Done,
    /// the library panicked; message
    Panicked(String),
    Wedged(String),
}

/// Execute a history, feeding every step to the observers. A violation is returned with a trace tail.
pub fn run_history(h: &History, obs: &mut [&mut dyn Observer]) -> (World, Outcome, R) {
    run_history_mode(h, obs, true)
}

/// `strict_close = false`: peer bytes keep arriving after the library requested the close (C05, C19)
pub fn run_history_mode(h: &History, obs: &mut [&mut dyn Observer], strict_close: bool) -> (World, Outcome, R) {
    let mut w = World::new(h.cfg);
    w.strict_close = strict_close;
    w.peer_discipline = h.disciplined;
    for op in &h.ops {
        let pre = w.t.clone();
        let pre_app = w.app.clone();
        w.exec(op);
        let st = w.steps.last().unwrap().clone();
        if std::env::var("VERIF_TRACE").is_ok() {
            // development aid: the whole history with the hook snapshot after every step
            let keep = ["status", "need_store", "store", "pid_free", "pid_puback", "pid_pubrec", "pid_pubcomp", "pid_pubrel", "qos2_publish_handled", "offline_publish", "is_client"];
            let stt: Vec<String> = w.c.state().into_iter().filter(|(k, _)| keep.contains(&k.as_str())).map(|(k, v)| format!("{k}={v}")).collect();
            eprintln!("TRACE {}\n      {}", st.brief(), stt.join(" "));
        }
        for o in obs.iter_mut() {
            if let Err(mut f) = o.on_step(&w, &pre, &pre_app, &st) {
                f.detail = format!("{}\n  history tail:\n  {}", f.detail, w.tail(8));
                return (w, Outcome::Done, Err(f));
            }
        }
        if let Some(p) = &st.panic {
            let p = p.clone();
            return (w, Outcome::Panicked(p), Ok(()));
        }
        if let Some(p) = &st.wedge {
            let p = p.clone();
            return (w, Outcome::Wedged(p), Ok(()));
        }
    }
    for o in obs.iter_mut() {
        if let Err(mut f) = o.finish(&mut w) {
            f.detail = format!("{}\n  history tail:\n  {}", f.detail, w.tail(8));
            return (w, Outcome::Done, Err(f));
        }
    }
    (w, Outcome::Done, Ok(()))
}

pub fn cfg_sig(c: &ConnCfg) -> String {
    format!("{:?}/{:?}/idw{}", c.role, c.ver, c.idw)
}

pub fn count_outcome(o: &Outcome, st: &mut Stats) {
    match o {
        Outcome::Panicked(_) => {
            st.aborted_by_panic += 1;
            st.class("aborted_by_panic");
        }
        Outcome::Wedged(_) => st.class("aborted_by_wedge"),
        Outcome::Done => {}
    }
}

pub fn fail(rule: &str, sig: impl Into<String>, detail: impl Into<String>) -> Fail {
    Fail::new(rule, sig, detail)
}

/// helper: the packet kinds present in a history (for classification)
pub fn has_op(h: &History, f: impl Fn(&Op) -> bool) -> bool {
    h.ops.iter().any(f)
}

#[allow(dead_code)]
fn _ap(_: &AP) {}
