//! Reader for /verif/known_findings.txt (never written at run time).
//!
//! Line formats:
//!   open: property=<id> rule=<rule id> sig=<signature> :: <what fails>
//!   fixed: property=<id> <commit> <what failed>
//! A `fixed:` line suppresses nothing.

use std::path::Path;

#[derive(Clone, Debug)]
pub struct Finding {
    pub open: bool,
    pub property: String,
    pub rule: String,
    pub sig: String,
    pub text: String,
}

pub fn load(verif_dir: &Path) -> Vec<Finding> {
    let p = verif_dir.join("known_findings.txt");
    let Ok(s) = std::fs::read_to_string(&p) else { return vec![] };
    let mut out = Vec::new();
    for line in s.lines() {
        let line = line.trim();
        if line.is_empty() || line.starts_with('#') {
            continue;
        }
        if let Some(rest) = line.strip_prefix("open:") {
            let (head, text) = match rest.split_once("::") {
                Some((h, t)) => (h.trim(), t.trim().to_string()),
                None => (rest.trim(), String::new()),
            };
            let mut property = String::new();
            let mut rule = String::new();
            let mut sig = String::new();
            // sig may contain spaces: it extends to the end of head
            if let Some(i) = head.find("sig=") {
                sig = head[i + 4..].trim().to_string();
                for tok in head[..i].split_whitespace() {
                    if let Some(v) = tok.strip_prefix("property=") {
                        property = v.to_string();
                    } else if let Some(v) = tok.strip_prefix("rule=") {
                        rule = v.to_string();
                    }
                }
            }
            out.push(Finding { open: true, property, rule, sig, text });
        } else if let Some(rest) = line.strip_prefix("fixed:") {
            let mut property = String::new();
            for tok in rest.split_whitespace() {
                if let Some(v) = tok.strip_prefix("property=") {
                    property = v.to_string();
                }
            }
            out.push(Finding { open: false, property, rule: String::new(), sig: String::new(), text: rest.trim().to_string() });
        }
    }
    out
}
