//! Uniform driver over GenericConnection<Client|Server|Any, u16|u32>: every call is wrapped in
//! catch_unwind, events are normalised (packets as AP, ids widened, release-runs as multisets).

use crate::adapt::{self, Pid};
use crate::ap::*;
use crate::util::catch;
use mqtt_protocol_core::mqtt;
use mqtt_protocol_core::mqtt::connection::role::{self, RoleType};
use mqtt_protocol_core::mqtt::connection::{GenericConnection, GenericEvent, TimerKind};
use mqtt_protocol_core::mqtt::packet::{GenericPacket, GenericPacketTrait, GenericStorePacket};
use serde::{Deserialize, Serialize};

#[derive(Clone, Copy, Debug, PartialEq, Eq, Hash, PartialOrd, Ord, Serialize, Deserialize)]
pub enum Role {
    Client,
    Server,
    Any,
}

#[derive(Clone, Copy, Debug, PartialEq, Eq, Hash, PartialOrd, Ord, Serialize, Deserialize)]
pub enum CVer {
    V311,
    V5,
    Undetermined,
}

impl CVer {
    pub fn of(v: V) -> CVer {
        match v {
            V::V311 => CVer::V311,
            V::V5 => CVer::V5,
        }
    }
    pub fn v(self) -> Option<V> {
        match self {
            CVer::V311 => Some(V::V311),
            CVer::V5 => Some(V::V5),
            CVer::Undetermined => None,
        }
    }
}

#[derive(Clone, Copy, Debug, PartialEq, Eq, Hash, PartialOrd, Ord, Serialize, Deserialize)]
pub enum TK {
    PingreqSend,
    PingreqRecv,
    PingrespRecv,
}

pub const ALL_TK: [TK; 3] = [TK::PingreqSend, TK::PingreqRecv, TK::PingrespRecv];

#[derive(Clone, Debug, PartialEq, Eq, Hash, Serialize, Deserialize)]
pub enum NEvent {
    Recv(AP),
    Send {
        ap: AP,
        rel: Option<u32>,
        size: usize,
        #[serde(with = "crate::ap::hexser")]
        bytes: Vec<u8>,
    },
    Released(u32),
    TimerReset { kind: TK, ms: u64 },
    TimerCancel(TK),
    Error(String),
    Close,
}

impl NEvent {
    pub fn brief(&self) -> String {
        match self {
            NEvent::Recv(ap) => format!("Recv({})", ap.brief()),
            NEvent::Send { ap, rel, size, .. } => format!("Send({} size={} rel={:?})", ap.brief(), size, rel),
            NEvent::Released(id) => format!("Released({id})"),
            NEvent::TimerReset { kind, ms } => format!("TimerReset({kind:?},{ms})"),
            NEvent::TimerCancel(k) => format!("TimerCancel({k:?})"),
            NEvent::Error(e) => format!("Error({e})"),
            NEvent::Close => "Close".into(),
        }
    }
}

pub fn brief_list(evs: &[NEvent]) -> String {
    let v: Vec<String> = evs.iter().map(|e| e.brief()).collect();
    format!("[{}]", v.join(", "))
}

/// Sort every run of consecutive Released events (hash-set iteration order is random per object).
pub fn normalise(mut evs: Vec<NEvent>) -> Vec<NEvent> {
    let mut i = 0;
    while i < evs.len() {
        if matches!(evs[i], NEvent::Released(_)) {
            let mut j = i;
            while j < evs.len() && matches!(evs[j], NEvent::Released(_)) {
                j += 1;
            }
            evs[i..j].sort_by_key(|e| if let NEvent::Released(x) = e { *x } else { 0 });
            i = j;
        } else {
            i += 1;
        }
    }
    evs
}

pub type Ev = Result<Vec<NEvent>, String>;

fn tk_to_lib(k: TK) -> TimerKind {
    match k {
        TK::PingreqSend => TimerKind::PingreqSend,
        TK::PingreqRecv => TimerKind::PingreqRecv,
        TK::PingrespRecv => TimerKind::PingrespRecv,
    }
}
fn tk_from_lib(k: TimerKind) -> TK {
    match k {
        TimerKind::PingreqSend => TK::PingreqSend,
        TimerKind::PingreqRecv => TK::PingreqRecv,
        TimerKind::PingrespRecv => TK::PingrespRecv,
    }
}

pub fn ev_from_lib<P: Pid>(e: &GenericEvent<P>) -> NEvent {
    match e {
        GenericEvent::NotifyPacketReceived(p) => NEvent::Recv(adapt::from_lib(p)),
        GenericEvent::RequestSendPacket { packet, release_packet_id_if_send_error } => NEvent::Send {
            ap: adapt::from_lib(packet),
            rel: release_packet_id_if_send_error.map(|x| x.to_u32w()),
            size: packet.size(),
            bytes: packet.to_continuous_buffer(),
        },
        GenericEvent::NotifyPacketIdReleased(id) => NEvent::Released(id.to_u32w()),
        GenericEvent::RequestTimerReset { kind, duration_ms } => NEvent::TimerReset { kind: tk_from_lib(*kind), ms: *duration_ms },
        GenericEvent::RequestTimerCancel(k) => NEvent::TimerCancel(tk_from_lib(*k)),
        GenericEvent::NotifyError(e) => NEvent::Error(format!("{e:?}")),
        GenericEvent::RequestClose => NEvent::Close,
    }
}

fn evs<P: Pid>(v: Vec<GenericEvent<P>>) -> Vec<NEvent> {
    v.iter().map(ev_from_lib).collect()
}

/// Object-safe view of a connection of any role / id width.
pub trait Conn {
    fn cfg(&self) -> ConnCfg;
    /// Err(text) if the AP cannot be built through the builders (no call is made)
    fn send(&mut self, ap: &AP) -> Result<Ev, String>;
    /// one recv() call over `data`; returns (bytes consumed, events)
    fn recv_once(&mut self, data: &[u8]) -> Result<(usize, Vec<NEvent>), String>;
    fn timer(&mut self, k: TK) -> Ev;
    fn closed(&mut self) -> Ev;
    fn set_pingreq_send_interval(&mut self, ms: Option<u64>) -> Ev;
    fn set_pingresp_recv_timeout(&mut self, ms: u64);
    fn set_offline_publish(&mut self, b: bool);
    fn set_auto_pub_response(&mut self, b: bool);
    fn set_auto_ping_response(&mut self, b: bool);
    fn set_auto_map(&mut self, b: bool);
    fn set_auto_replace(&mut self, b: bool);
    fn acquire(&mut self) -> Result<Result<u32, String>, String>;
    fn register(&mut self, id: u32) -> Result<Result<(), String>, String>;
    fn release(&mut self, id: u32) -> Ev;
    fn erase_stored_publish(&mut self, id: u32) -> Ev;
    fn stored(&self) -> Vec<AP>;
    fn restore_packets(&mut self, aps: &[AP]) -> Result<(), String>;
    fn qos2_handled(&self) -> Vec<u32>;
    fn restore_qos2_handled(&mut self, ids: &[u32]);
    fn vacancy(&self) -> Option<u16>;
    fn protocol_version(&self) -> String;
    fn regulate(&self, ap: &AP) -> Result<Result<AP, String>, String>;
    fn state(&self) -> Vec<(String, String)>;
    fn free_ids(&self) -> Vec<(u64, u64)>;
}

#[derive(Clone, Copy, Debug, PartialEq, Eq, Hash, Serialize, Deserialize)]
pub struct ConnCfg {
    pub role: Role,
    pub ver: CVer,
    pub idw: usize,
}

struct Wrap<R: RoleType, P: Pid> {
    c: GenericConnection<R, P>,
    cfg: ConnCfg,
}

impl<R: RoleType, P: Pid> Conn for Wrap<R, P> {
    fn cfg(&self) -> ConnCfg {
        self.cfg
    }
    fn send(&mut self, ap: &AP) -> Result<Ev, String> {
        let p: GenericPacket<P> = match catch(|| adapt::to_lib::<P>(ap)) {
            Ok(Ok(p)) => p,
            Ok(Err(e)) => return Err(e),
            Err(pm) => return Err(format!("builder panic: {pm}")),
        };
        Ok(catch(|| evs(self.c.send(p))))
    }
    fn recv_once(&mut self, data: &[u8]) -> Result<(usize, Vec<NEvent>), String> {
        catch(|| {
            let mut cur = mqtt::common::Cursor::new(data);
            let e = self.c.recv(&mut cur);
            (cur.position() as usize, evs(e))
        })
    }
    fn timer(&mut self, k: TK) -> Ev {
        catch(|| evs(self.c.notify_timer_fired(tk_to_lib(k))))
    }
    fn closed(&mut self) -> Ev {
        catch(|| evs(self.c.notify_closed()))
    }
    fn set_pingreq_send_interval(&mut self, ms: Option<u64>) -> Ev {
        catch(|| evs(self.c.set_pingreq_send_interval(ms)))
    }
    fn set_pingresp_recv_timeout(&mut self, ms: u64) {
        self.c.set_pingresp_recv_timeout(ms)
    }
    fn set_offline_publish(&mut self, b: bool) {
        self.c.set_offline_publish(b)
    }
    fn set_auto_pub_response(&mut self, b: bool) {
        self.c.set_auto_pub_response(b)
    }
    fn set_auto_ping_response(&mut self, b: bool) {
        self.c.set_auto_ping_response(b)
    }
    fn set_auto_map(&mut self, b: bool) {
        self.c.set_auto_map_topic_alias_send(b)
    }
    fn set_auto_replace(&mut self, b: bool) {
        self.c.set_auto_replace_topic_alias_send(b)
    }
    fn acquire(&mut self) -> Result<Result<u32, String>, String> {
        catch(|| self.c.acquire_packet_id().map(|x| x.to_u32w()).map_err(|e| format!("{e:?}")))
    }
    fn register(&mut self, id: u32) -> Result<Result<(), String>, String> {
        match P::from_u32(id) {
            None => Ok(Err("id does not fit".into())),
            Some(x) => catch(|| self.c.register_packet_id(x).map_err(|e| format!("{e:?}"))),
        }
    }
    fn release(&mut self, id: u32) -> Ev {
        match P::from_u32(id) {
            None => Ok(vec![]),
            Some(x) => catch(|| evs(self.c.release_packet_id(x))),
        }
    }
    fn erase_stored_publish(&mut self, id: u32) -> Ev {
        match P::from_u32(id) {
            None => Ok(vec![]),
            Some(x) => catch(|| evs(self.c.erase_stored_publish(x))),
        }
    }
    fn stored(&self) -> Vec<AP> {
        self.c.get_stored_packets().into_iter().map(|sp| adapt::from_lib::<P>(&sp.into())).collect()
    }
    fn restore_packets(&mut self, aps: &[AP]) -> Result<(), String> {
        let mut v: Vec<GenericStorePacket<P>> = Vec::new();
        for ap in aps {
            let p = adapt::to_lib::<P>(ap)?;
            let sp: Option<GenericStorePacket<P>> = match p {
                GenericPacket::V3_1_1Publish(x) => GenericStorePacket::try_from(x).ok(),
                GenericPacket::V5_0Publish(x) => GenericStorePacket::try_from(x).ok(),
                GenericPacket::V3_1_1Pubrel(x) => GenericStorePacket::try_from(x).ok(),
                GenericPacket::V5_0Pubrel(x) => GenericStorePacket::try_from(x).ok(),
                _ => None,
            };
            match sp {
                Some(sp) => v.push(sp),
                None => return Err("not a storable packet".into()),
            }
        }
        catch(|| self.c.restore_packets(v))
    }
    fn qos2_handled(&self) -> Vec<u32> {
        let mut v: Vec<u32> = self.c.get_qos2_publish_handled().iter().map(|x| x.to_u32w()).collect();
        v.sort_unstable();
        v
    }
    fn restore_qos2_handled(&mut self, ids: &[u32]) {
        let mut s = mqtt::common::HashSet::default();
        for id in ids {
            if let Some(x) = P::from_u32(*id) {
                s.insert(x);
            }
        }
        self.c.restore_qos2_publish_handled(s)
    }
    fn vacancy(&self) -> Option<u16> {
        self.c.get_receive_maximum_vacancy_for_send()
    }
    fn protocol_version(&self) -> String {
        format!("{:?}", self.c.get_protocol_version())
    }
    fn regulate(&self, ap: &AP) -> Result<Result<AP, String>, String> {
        let p = adapt::to_lib::<P>(ap).map_err(|e| format!("build: {e}"))?;
        let GenericPacket::V5_0Publish(pb) = p else { return Err("not a v5 publish".into()) };
        catch(|| self.c.regulate_for_store(pb).map(|q| adapt::from_lib::<P>(&q.into())).map_err(|e| format!("{e:?}")))
    }
    fn state(&self) -> Vec<(String, String)> {
        self.c.verif_state().into_iter().map(|(k, v)| (k.to_string(), v)).collect()
    }
    fn free_ids(&self) -> Vec<(u64, u64)> {
        self.c.verif_free_id_intervals()
    }
}

pub fn lib_version(v: CVer) -> mqtt::Version {
    match v {
        CVer::V311 => mqtt::Version::V3_1_1,
        CVer::V5 => mqtt::Version::V5_0,
        CVer::Undetermined => mqtt::Version::Undetermined,
    }
}

pub fn new_conn(cfg: ConnCfg) -> Box<dyn Conn> {
    let v = lib_version(cfg.ver);
    match (cfg.role, cfg.idw) {
        (Role::Client, 2) => Box::new(Wrap::<role::Client, u16> { c: GenericConnection::new(v), cfg }),
        (Role::Server, 2) => Box::new(Wrap::<role::Server, u16> { c: GenericConnection::new(v), cfg }),
        (Role::Any, 2) => Box::new(Wrap::<role::Any, u16> { c: GenericConnection::new(v), cfg }),
        (Role::Client, _) => Box::new(Wrap::<role::Client, u32> { c: GenericConnection::new(v), cfg }),
        (Role::Server, _) => Box::new(Wrap::<role::Server, u32> { c: GenericConnection::new(v), cfg }),
        (Role::Any, _) => Box::new(Wrap::<role::Any, u32> { c: GenericConnection::new(v), cfg }),
    }
}

/// The documented receive loop: call recv again while the cursor has bytes left.
/// Returns per-call (consumed, events); Err on panic or on a call that makes no progress (wedge).
pub fn recv_all(c: &mut dyn Conn, data: &[u8]) -> Result<Vec<(usize, Vec<NEvent>)>, String> {
    let mut out = Vec::new();
    let mut off = 0;
    while off < data.len() {
        let (n, e) = c.recv_once(&data[off..])?;
        if n == 0 && e.is_empty() {
            return Err(format!("WEDGE: recv consumed nothing and returned no event with {} bytes left", data.len() - off));
        }
        if n == 0 {
            // events but no progress: tolerate once per event list, but never loop forever
            out.push((n, e));
            return Err("WEDGE: recv returned events without consuming any byte".into());
        }
        off += n;
        out.push((n, e));
    }
    Ok(out)
}

/// Flatten the per-call lists
pub fn flat(calls: &[(usize, Vec<NEvent>)]) -> Vec<NEvent> {
    calls.iter().flat_map(|(_, e)| e.iter().cloned()).collect()
}

pub fn state_diff(a: &[(String, String)], b: &[(String, String)], ignore: &[&str]) -> Vec<String> {
    let mut out = Vec::new();
    for (k, v) in a {
        if ignore.contains(&k.as_str()) {
            continue;
        }
        match b.iter().find(|(k2, _)| k2 == k) {
            Some((_, v2)) if v2 == v => {}
            Some((_, v2)) => out.push(format!("{k}: {v} -> {v2}")),
            None => out.push(format!("{k}: missing")),
        }
    }
    out
}
