//! Evidence writer (/verif/evidence/<id>.json, schema /root/.vp/EVIDENCE.schema.json)

use crate::engine::{Ctx, Report};
use serde_json::{json, Value};

pub fn write(ctx: &Ctx, prop: &str, level: &str, rep: &Report, wall_s: f64) -> std::io::Result<()> {
    let dir = ctx.verif_dir.join("evidence");
    std::fs::create_dir_all(&dir)?;
    let mut samples: Vec<Value> = rep.stats.samples.clone();
    if samples.is_empty() {
        samples.push(json!("(no sample recorded)"));
    }
    let cov = json!({
        "evaluations": rep.stats.evaluations,
        "distinct_nontrivial": rep.stats.nontrivial.len(),
        "rule": rep.rule,
        "samples": samples,
        "exhaustive": rep.exhaustive,
        "classes": rep.stats.classes,
        "counters": rep.stats.counters,
        "parts": rep.parts,
        "excluded_by_known_finding": rep.stats.excluded_known,
        "aborted_by_panic": rep.stats.aborted_by_panic,
        "known_findings_reported": rep.known_hits,
        "workers": ctx.workers,
    });
    let ev = json!({
        "property_id": prop,
        "tier": ctx.tier.name(),
        "seed": ctx.seed,
        "level": level,
        "coverage": cov,
        "assumptions": rep.assumptions,
        "wall_s": wall_s,
        "violations": rep.violations.len() as u64 + rep.fuzz_violations,
    });
    let path = dir.join(format!("{prop}.json"));
    std::fs::write(path, serde_json::to_string_pretty(&ev).unwrap())
}
