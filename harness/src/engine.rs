//! Search engine: fixed-work, seed-deterministic, parallel proptest runs with shrinking;
//! statistics, violations, known-finding matching.

use crate::util::{h64, mix};
use proptest::strategy::Strategy;
use proptest::test_runner::{Config, RngAlgorithm, TestCaseError, TestError, TestRng, TestRunner};
use serde::Serialize;
use serde_json::{json, Value};
use std::cell::{Cell, RefCell};
use std::collections::{BTreeMap, HashSet};
use std::path::PathBuf;

#[derive(Clone, Copy, PartialEq, Eq, Debug)]
pub enum Tier {
    Quick,
    Thorough,
}

impl Tier {
    pub fn name(self) -> &'static str {
        match self {
            Tier::Quick => "quick",
            Tier::Thorough => "thorough",
        }
    }
    /// pick a count by tier
    pub fn pick(self, quick: u64, thorough: u64) -> u64 {
        let n = match self {
            Tier::Quick => quick,
            Tier::Thorough => thorough,
        };
        // development aid (coverage measurement, tools/coverage.sh): VERIF_DEV_SCALE=<k> divides every case count by k.
        // Never set by the registered commands.
        static SCALE: std::sync::OnceLock<u64> = std::sync::OnceLock::new();
        let k = *SCALE.get_or_init(|| std::env::var("VERIF_DEV_SCALE").ok().and_then(|s| s.parse().ok()).filter(|k| *k >= 1).unwrap_or(1));
        (n / k).max(1)
    }
}

#[derive(Clone, Debug)]
pub struct Ctx {
    pub tier: Tier,
    pub seed: u64,
    pub workers: usize,
    pub verif_dir: PathBuf,
    pub known: Vec<crate::findings::Finding>,
    /// strict = replay mode: known findings are not tolerated inside checks
    pub strict: bool,
}

#[derive(Clone, Debug, PartialEq, Eq)]
pub struct Fail {
    /// stable oracle rule id, e.g. "C02.reparse_ne"
    pub rule: String,
    /// signature of the input class / call site (used for known-finding matching)
    pub sig: String,
    pub detail: String,
}

impl Fail {
    pub fn new(rule: &str, sig: impl Into<String>, detail: impl Into<String>) -> Fail {
        Fail { rule: rule.to_string(), sig: sig.into(), detail: detail.into() }
    }
}

pub type R = Result<(), Fail>;

#[macro_export]
macro_rules! ensure {
    ($cond:expr, $rule:expr, $sig:expr, $($arg:tt)*) => {
        if !($cond) {
            return Err($crate::engine::Fail::new($rule, $sig, format!($($arg)*)));
        }
    };
}

const MAX_SAMPLES: usize = 6;

#[derive(Default, Debug)]
pub struct Stats {
    pub evaluations: u64,
    pub nontrivial: HashSet<u64>,
    pub classes: BTreeMap<String, u64>,
    pub samples: Vec<Value>,
    pub excluded_known: u64,
    pub aborted_by_panic: u64,
    pub counters: BTreeMap<String, u64>,
}

impl Stats {
    pub fn eval(&mut self) {
        self.evaluations += 1;
    }
    pub fn nontrivial_hash(&mut self, h: u64) {
        self.nontrivial.insert(h);
    }
    pub fn nontrivial<T: std::hash::Hash + ?Sized>(&mut self, x: &T) {
        self.nontrivial.insert(h64(x));
    }
    pub fn class(&mut self, name: &str) {
        *self.classes.entry(name.to_string()).or_insert(0) += 1;
    }
    pub fn count(&mut self, name: &str, n: u64) {
        *self.counters.entry(name.to_string()).or_insert(0) += n;
    }
    pub fn want_sample(&self) -> bool {
        self.samples.len() < MAX_SAMPLES
    }
    pub fn sample(&mut self, f: impl FnOnce() -> Value) {
        if self.samples.len() < MAX_SAMPLES {
            self.samples.push(f());
        }
    }
    pub fn merge(&mut self, o: Stats) {
        self.evaluations += o.evaluations;
        self.nontrivial.extend(o.nontrivial);
        for (k, v) in o.classes {
            *self.classes.entry(k).or_insert(0) += v;
        }
        for (k, v) in o.counters {
            *self.counters.entry(k).or_insert(0) += v;
        }
        for s in o.samples {
            if self.samples.len() < MAX_SAMPLES {
                self.samples.push(s);
            }
        }
        self.excluded_known += o.excluded_known;
        self.aborted_by_panic += o.aborted_by_panic;
    }
}

#[derive(Clone, Debug)]
pub struct Violation {
    pub check: String,
    pub fail: Fail,
    pub case: Value,
    pub seed: u64,
}

#[derive(Default, Debug)]
pub struct Report {
    pub stats: Stats,
    pub violations: Vec<Violation>,
    pub known_hits: Vec<String>,
    pub rule: String,
    pub exhaustive: bool,
    pub assumptions: Vec<String>,
    pub parts: Vec<Value>,
    /// violations reported by the libFuzzer campaign of this run (replay files written by the check script)
    pub fuzz_violations: u64,
}

impl Report {
    pub fn new(rule: &str) -> Report {
        Report { rule: rule.to_string(), ..Default::default() }
    }
    pub fn part(&mut self, name: &str, st: &Stats, exhaustive: bool) {
        self.parts.push(json!({
            "part": name,
            "evaluations": st.evaluations,
            "distinct_nontrivial": st.nontrivial.len(),
            "exhaustive": exhaustive,
        }));
    }
    pub fn absorb(&mut self, name: &str, st: Stats, v: Option<Violation>, exhaustive: bool) {
        self.part(name, &st, exhaustive);
        self.stats.merge(st);
        if let Some(v) = v {
            self.violations.push(v);
        }
    }
}

fn rng_for(seed: u64, check: &str, worker: u64) -> TestRng {
    let a = mix(seed, h64(check));
    let mut bytes = [0u8; 32];
    for i in 0..4u64 {
        let x = mix(a, worker * 4 + i);
        bytes[(i as usize) * 8..(i as usize) * 8 + 8].copy_from_slice(&x.to_le_bytes());
    }
    TestRng::from_seed(RngAlgorithm::ChaCha, &bytes)
}

/// Triage mode (env VERIF_COLLECT=1, development only): every failure is tolerated and tallied by
/// (rule, signature) so that one run shows all failing classes. Never used by registered commands.
pub static COLLECTED: std::sync::Mutex<BTreeMap<(String, String), (u64, String)>> = std::sync::Mutex::new(BTreeMap::new());

pub fn collecting() -> bool {
    static ON: std::sync::OnceLock<bool> = std::sync::OnceLock::new();
    *ON.get_or_init(|| std::env::var("VERIF_COLLECT").is_ok())
}

/// Is `f` listed as an open known finding for `prop`?
pub fn is_known(ctx: &Ctx, f: &Fail) -> bool {
    if ctx.strict {
        return false;
    }
    if collecting() {
        // VERIF_ONLY=<substring>: failures whose "rule|sig" contains it stay real (and get shrunk)
        if let Ok(only) = std::env::var("VERIF_ONLY") {
            if format!("{}|{}", f.rule, f.sig).contains(&only) {
                return false;
            }
        }
        let mut g = COLLECTED.lock().unwrap();
        let e = g.entry((f.rule.clone(), f.sig.clone())).or_insert((0, f.detail.clone()));
        e.0 += 1;
        return true;
    }
    ctx.known.iter().any(|k| k.open && k.rule == f.rule && k.sig == f.sig)
}

/// Fixed-work random search with shrinking. `cases` is the total over all workers.
/// Returns merged statistics and the (shrunk) violation of the lowest-numbered failing worker.
pub fn search<T, S, MK, F>(ctx: &Ctx, check: &str, cases: u64, mk: MK, test: F) -> (Stats, Option<Violation>)
where
    S: Strategy<Value = T>,
    T: std::fmt::Debug + Serialize + Clone,
    MK: Fn() -> S + Sync,
    F: Fn(&T, &mut Stats) -> R + Sync,
{
    let workers = ctx.workers.max(1) as u64;
    let results: Vec<(Stats, Option<Violation>)> = std::thread::scope(|scope| {
        let mut hs = Vec::new();
        for w in 0..workers {
            let n = cases / workers + if w < cases % workers { 1 } else { 0 };
            let mk = &mk;
            let test = &test;
            hs.push(scope.spawn(move || {
                if n == 0 {
                    return (Stats::default(), None);
                }
                let stats = RefCell::new(Stats::default());
                let failed = Cell::new(false);
                let cfg = Config {
                    cases: n as u32,
                    failure_persistence: None,
                    max_shrink_iters: 4000,
                    max_global_rejects: 1 << 20,
                    ..Config::default()
                };
                let mut runner = TestRunner::new_with_rng(cfg, rng_for(ctx.seed, check, w));
                let strat = mk();
                let res = runner.run(&strat, |v| {
                    let r = if failed.get() {
                        let mut scratch = Stats::default();
                        test(&v, &mut scratch)
                    } else {
                        let mut st = stats.borrow_mut();
                        st.eval();
                        test(&v, &mut st)
                    };
                    match r {
                        Ok(()) => Ok(()),
                        Err(f) => {
                            if is_known(ctx, &f) {
                                if !failed.get() {
                                    stats.borrow_mut().excluded_known += 1;
                                }
                                return Ok(());
                            }
                            failed.set(true);
                            Err(TestCaseError::fail(f.rule))
                        }
                    }
                });
                let viol = match res {
                    Ok(()) => None,
                    Err(TestError::Fail(_, v)) => {
                        let mut scratch = Stats::default();
                        let f = match test(&v, &mut scratch) {
                            Err(f) => f,
                            Ok(()) => Fail::new("engine.flaky", "shrunk case passed on re-run", ""),
                        };
                        Some(Violation {
                            check: check.to_string(),
                            fail: f,
                            case: serde_json::to_value(&v).unwrap_or(Value::Null),
                            seed: ctx.seed,
                        })
                    }
                    Err(TestError::Abort(why)) => Some(Violation {
                        check: check.to_string(),
                        fail: Fail::new("engine.abort", "generator", format!("{why}")),
                        case: Value::Null,
                        seed: ctx.seed,
                    }),
                };
                (stats.into_inner(), viol)
            }));
        }
        hs.into_iter().map(|h| h.join().expect("worker thread")).collect()
    });
    let mut st = Stats::default();
    let mut viol = None;
    for (s, v) in results {
        st.merge(s);
        if viol.is_none() {
            viol = v;
        }
    }
    (st, viol)
}

/// Run `items` through `test` in parallel (exhaustive enumeration of a finite list).
pub fn enumerate<T, F>(ctx: &Ctx, check: &str, items: &[T], test: F) -> (Stats, Option<Violation>)
where
    T: Sync + Serialize,
    F: Fn(&T, &mut Stats) -> R + Sync,
{
    let workers = ctx.workers.max(1);
    let chunk = items.len().div_ceil(workers).max(1);
    let results: Vec<(Stats, Option<(usize, Fail)>)> = std::thread::scope(|scope| {
        let mut hs = Vec::new();
        for (ci, part) in items.chunks(chunk).enumerate() {
            let test = &test;
            hs.push(scope.spawn(move || {
                let mut st = Stats::default();
                let mut first = None;
                for (i, it) in part.iter().enumerate() {
                    st.eval();
                    if let Err(f) = test(it, &mut st) {
                        if is_known(ctx, &f) {
                            st.excluded_known += 1;
                            continue;
                        }
                        if first.is_none() {
                            first = Some((ci * chunk + i, f));
                        }
                    }
                }
                (st, first)
            }));
        }
        hs.into_iter().map(|h| h.join().expect("worker thread")).collect()
    });
    let mut st = Stats::default();
    let mut viol = None;
    for (s, v) in results {
        st.merge(s);
        if viol.is_none() {
            if let Some((i, f)) = v {
                viol = Some(Violation {
                    check: check.to_string(),
                    fail: f,
                    case: serde_json::to_value(&items[i]).unwrap_or(Value::Null),
                    seed: ctx.seed,
                });
            }
        }
    }
    (st, viol)
}

/// Monotone index mapping recommended for shrinking: maps a u16 selector onto 0..len
pub fn pick_idx(sel: u16, len: usize) -> usize {
    if len == 0 {
        0
    } else {
        ((sel as usize) * len) >> 16
    }
}
