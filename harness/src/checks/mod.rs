use crate::engine::{Ctx, Report, R};
use serde_json::Value;

pub mod c01;
pub mod c02;
pub mod c03;
pub mod c04;
pub mod c05;
pub mod c06;
pub mod c07;
pub mod c08;
pub mod c09;
pub mod c10;
pub mod c11;
pub mod c12;
pub mod c13;
pub mod c14;
pub mod c15;
pub mod c16;
pub mod c17;
pub mod c18;
pub mod c19;
pub mod c20;

pub struct Check {
    pub id: &'static str,
    pub level: &'static str,
    pub run: fn(&Ctx) -> Report,
    pub replay: fn(&str, &Value) -> Option<R>,
}

pub fn registry() -> Vec<Check> {
    vec![
        Check { id: "C01", level: "fault_enumeration", run: c01::run, replay: c01::replay },
        Check { id: "C02", level: "exploration", run: c02::run, replay: c02::replay },
        Check { id: "C03", level: "exploration", run: c03::run, replay: c03::replay },
        Check { id: "C04", level: "exploration", run: c04::run, replay: c04::replay },
        Check { id: "C05", level: "exploration", run: c05::run, replay: c05::replay },
        Check { id: "C06", level: "exploration", run: c06::run, replay: c06::replay },
        Check { id: "C07", level: "exploration", run: c07::run, replay: c07::replay },
        Check { id: "C08", level: "exploration", run: c08::run, replay: c08::replay },
        Check { id: "C09", level: "exploration", run: c09::run, replay: c09::replay },
        Check { id: "C10", level: "exploration", run: c10::run, replay: c10::replay },
        Check { id: "C11", level: "exploration", run: c11::run, replay: c11::replay },
        Check { id: "C12", level: "exploration", run: c12::run, replay: c12::replay },
        Check { id: "C13", level: "exploration", run: c13::run, replay: c13::replay },
        Check { id: "C14", level: "exploration", run: c14::run, replay: c14::replay },
        Check { id: "C15", level: "exploration", run: c15::run, replay: c15::replay },
        Check { id: "C16", level: "fault_enumeration", run: c16::run, replay: c16::replay },
        Check { id: "C17", level: "exploration", run: c17::run, replay: c17::replay },
        Check { id: "C18", level: "exploration", run: c18::run, replay: c18::replay },
        Check { id: "C19", level: "exploration", run: c19::run, replay: c19::replay },
        Check { id: "C20", level: "exploration", run: c20::run, replay: c20::replay },
    ]
}
