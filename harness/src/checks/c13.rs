//! C13 — topic aliases always resolve to the intended topic at the receiver.

use crate::ap::*;
use crate::conn::*;
use crate::engine::*;
use crate::hist::*;
use crate::scn::*;
use serde_json::json;
use std::collections::BTreeMap;

pub struct AliasModel {
    /// what a spec-conformant receiver of our PUBLISH packets has bound on this connection
    t: BTreeMap<u16, String>,
    /// the application's own accepted manual bindings on this connection
    app_bind: BTreeMap<u16, String>,
    /// what the peer bound on this connection (our receive table)
    r: BTreeMap<u16, String>,
    /// intended topic of every accepted publish, keyed by its unique payload
    intended: BTreeMap<Vec<u8>, String>,
    conn_seq: u32,
    pub empty_topic_sent: u64,
    pub empty_topic_received: u64,
    pub disturbances: u64,
    pub local_publish_connected: u64,
    pub local_use_connected: u64,
    pub local_use_accepted: u64,
    pub local_publish_with_send_alias_max: u64,
    pub steps: u64,
    pub steps_connected: u64,
    pub error_disconnects: std::collections::BTreeMap<String, u64>,
}

impl AliasModel {
    pub fn new() -> AliasModel {
        AliasModel { t: BTreeMap::new(), app_bind: BTreeMap::new(), r: BTreeMap::new(), intended: BTreeMap::new(), conn_seq: 0, empty_topic_sent: 0, empty_topic_received: 0, disturbances: 0, local_publish_connected: 0, local_use_connected: 0, local_use_accepted: 0, local_publish_with_send_alias_max: 0, steps: 0, steps_connected: 0, error_disconnects: Default::default() }
    }
    fn new_connection(&mut self) {
        if !self.t.is_empty() || !self.r.is_empty() {
            self.disturbances += 1;
        }
        self.t.clear();
        self.app_bind.clear();
        self.r.clear();
    }
}

fn alias_of(ap: &AP) -> Option<u16> {
    ap.prop_u16(pid::TOPIC_ALIAS)
}

impl Observer for AliasModel {
    fn on_step(&mut self, w: &World, pre: &Tracker, _pa: &App, st: &Step) -> R {
        check_wire("C13", st, w.t.cfg.idw)?;
        if st.panic.is_some() {
            return Ok(());
        }
        let t = &w.t;
        if t.v != Some(V::V5) {
            return Ok(());
        }
        self.steps += 1;
        if pre.status == St::Connected {
            self.steps_connected += 1;
            if t.status != St::Connected {
                let why = format!("{} -> {:?}", match &st.call { Call::Send(ap) => format!("send {}", ap.kind_name()), Call::Recv { ap: Some(ap), .. } => format!("recv {}", ap.kind_name()), Call::Closed => "closed".into(), _ => "other".into() }, st.errors());
                *self.error_disconnects.entry(why).or_insert(0) += 1;
            }
        }
        if t.conn_seq != self.conn_seq {
            self.conn_seq = t.conn_seq;
            self.new_connection();
        }
        if let Call::Closed = &st.call {
            self.new_connection();
        }
        // ---- the application's intention for a local publish
        let mut this_intended: Option<(Vec<u8>, Option<String>)> = None;
        if let Call::Send(AP::Publish { topic, payload, .. }) = &st.call {
            let ap = if let Call::Send(ap) = &st.call { ap } else { unreachable!() };
            // manual use: the topic an earlier PUBLISH actually sent on this connection bound to the alias
            // (chosen by the application or by automatic mapping; the application sees both in the events)
            let intent = if !topic.is_empty() { Some(topic.clone()) } else { alias_of(ap).and_then(|a| self.app_bind.get(&a).cloned()) };
            this_intended = Some((payload.clone(), intent.clone()));
            if let Some(it) = &intent {
                self.intended.insert(payload.clone(), it.clone());
            }
            if pre.status == St::Connected {
                self.local_publish_connected += 1;
                if pre.send_alias_max > 0 {
                    self.local_publish_with_send_alias_max += 1;
                }
                if topic.is_empty() {
                    self.local_use_connected += 1;
                    if !st.has_error() {
                        self.local_use_accepted += 1;
                    }
                }
            }
            if st.has_error() {
                self.disturbances += 1;
            }
        }
        // ---- every PUBLISH requested for sending must be resolvable to the intended topic
        let send_max = t.send_alias_max;
        let resend = crate::checks::c06::is_resend_step(pre, st);
        for e in &st.events {
            if let NEvent::Send { ap: ap @ AP::Publish { topic, payload, .. }, .. } = e {
                let a = alias_of(ap);
                if let Some(a) = a {
                    if a == 0 || a > send_max {
                        return Err(fail("C13.alias_out_of_range", format!("max={}", send_max.min(6)), format!("PUBLISH requested with Topic Alias {a} but the peer's Topic Alias Maximum is {send_max}: {}", ap.brief())));
                    }
                }
                let is_resent_stored = resend && !matches!(st.call, Call::Send(AP::Publish { .. }));
                if is_resent_stored && (a.is_some() || topic.is_empty()) {
                    return Err(fail("C13.stored_with_alias_or_wrong_topic", "resend", format!("a retransmitted stored PUBLISH carries an alias or an empty topic: {}", ap.brief())));
                }
                let resolved: String = if !topic.is_empty() {
                    if let Some(a) = a {
                        if self.t.get(&a).map(|x| x != topic).unwrap_or(false) {
                            self.disturbances += 1; // rebind
                        }
                        self.t.insert(a, topic.clone());
                        // the application sees the binding in the event (automatic mapping included)
                        self.app_bind.insert(a, topic.clone());
                    }
                    topic.clone()
                } else {
                    self.empty_topic_sent += 1;
                    match a.and_then(|a| self.t.get(&a).cloned()) {
                        Some(x) => x,
                        None => {
                            return Err(fail(
                                "C13.unbound_alias_sent",
                                format!("{}", if matches!(st.call, Call::Send(AP::Publish { topic: ref t0, .. }) if t0.is_empty()) { "manual" } else { "automatic" }),
                                format!("PUBLISH requested with an empty topic and Topic Alias {a:?}, but no PUBLISH sent on this connection bound that alias (receiver table {:?}): {}", self.t, ap.brief()),
                            ));
                        }
                    }
                };
                let want = match &this_intended {
                    Some((pl, it)) if pl == payload => it.clone(),
                    _ => self.intended.get(payload).cloned(),
                };
                if let Some(want) = want {
                    if resolved != want {
                        return Err(fail(
                            "C13.resolves_to_wrong_topic",
                            format!("{}", if is_resent_stored { "resend" } else if matches!(st.call, Call::Send(AP::Publish { topic: ref t0, .. }) if t0.is_empty()) { "manual_use" } else if a.is_some() && topic.is_empty() { "automatic" } else { "plain" }),
                            format!("the application asked for topic {want:?} but a receiver resolves the requested packet to {resolved:?} (receiver table {:?}): {}", self.t, ap.brief()),
                        ));
                    }
                } else if topic.is_empty() && matches!(st.call, Call::Send(AP::Publish { .. })) {
                    // manual use of an alias the application never bound on this connection was accepted
                    return Err(fail("C13.unbound_alias_sent", "manual_never_bound", format!("an empty-topic PUBLISH with alias {a:?} was accepted although the application has no accepted binding for it on this connection: {}", ap.brief())));
                }
            }
        }
        // ---- accepted manual bind updates the application's view
        if let Call::Send(ap @ AP::Publish { topic, .. }) = &st.call {
            if let (Some(a), false) = (alias_of(ap), topic.is_empty()) {
                let accepted = !st.has_error();
                if accepted {
                    self.app_bind.insert(a, topic.clone());
                }
            }
            // regulate_for_store of the same packet must give the intended full topic without alias
            if let Some((_, Some(want))) = &this_intended {
                if !st.has_error() {
                    if let Ok(Ok(AP::Publish { topic: rt, props, .. })) = w.c.regulate(ap) {
                        if rt != *want || props.iter().any(|p| p.id == pid::TOPIC_ALIAS) {
                            return Err(fail("C13.stored_with_alias_or_wrong_topic", "regulate_for_store", format!("regulate_for_store({}) returned topic {rt:?} (alias kept: {}), intended {want:?}", ap.brief(), props.iter().any(|p| p.id == pid::TOPIC_ALIAS))));
                        }
                    }
                }
            }
        }
        // ---- stored packets carry the intended full topic and no alias
        for s in w.c.stored() {
            if let AP::Publish { topic, payload, .. } = &s {
                let bad_shape = topic.is_empty() || alias_of(&s).is_some();
                let want = self.intended.get(payload);
                if bad_shape || want.map(|x| x != topic).unwrap_or(false) {
                    return Err(fail("C13.stored_with_alias_or_wrong_topic", "store", format!("stored packet {} but the application asked for topic {:?}", s.brief(), want)));
                }
            }
        }
        // ---- inbound
        if let Call::Recv { ap: Some(ap @ AP::Publish { topic, .. }), .. } = &st.call {
            if st.calls.len() == 1 && pre.status != St::Disconnected {
                let a = alias_of(ap);
                let max = pre.recv_alias_max;
                let delivered: Vec<&AP> = st.recvs().into_iter().filter(|x| matches!(x, AP::Publish { .. })).collect();
                if topic.is_empty() {
                    self.empty_topic_received += 1;
                }
                match a {
                    Some(a) if a == 0 || a > max => {
                        if !delivered.is_empty() || !st.has_error() {
                            return Err(fail("C13.inbound_wrong_topic", "alias_out_of_range_accepted", format!("inbound PUBLISH with Topic Alias {a} (announced maximum {max}) was delivered or not reported: {}", brief_list(&st.events))));
                        }
                    }
                    Some(a) if !topic.is_empty() => {
                        // a valid packet binds the alias even when it is a suppressed QoS2 duplicate
                        // (an error that only concerns the response - PacketTooLarge for the peer's limit while the
                        // frame itself fits ours - does not make the packet invalid)
                        let frame_len = crate::refcodec::encode(ap, t.cfg.idw).len();
                        let fits = pre.mps_recv.map(|m| frame_len <= m as usize).unwrap_or(true);
                        let only_response_error = fits && st.errors().iter().all(|e| *e == "PacketTooLarge");
                        if !st.has_error() || !delivered.is_empty() || only_response_error {
                            self.r.insert(a, topic.clone());
                        }
                    }
                    Some(a) => {
                        // empty topic: use
                        match self.r.get(&a) {
                            Some(bound) => {
                                for d in &delivered {
                                    if let AP::Publish { topic: dt, .. } = d {
                                        if dt != bound {
                                            return Err(fail("C13.inbound_wrong_topic", "use", format!("inbound alias {a} is bound to {bound:?} on this connection but the packet was delivered with topic {dt:?}")));
                                        }
                                    }
                                }
                                if delivered.is_empty() && !st.has_error() && !matches!(ap, AP::Publish { qos: 2, .. }) {
                                    return Err(fail("C13.inbound_wrong_topic", "use_silent", "inbound PUBLISH using a bound alias was neither delivered nor reported"));
                                }
                            }
                            None => {
                                if !delivered.is_empty() {
                                    let dt = if let AP::Publish { topic: dt, .. } = delivered[0] { dt.clone() } else { String::new() };
                                    return Err(fail("C13.inbound_stale_binding", "use_unbound", format!("inbound PUBLISH uses alias {a} which the peer has not bound on this connection, yet it was delivered with topic {dt:?}")));
                                }
                                let tai = st.errors().iter().any(|e| *e == "TopicAliasInvalid");
                                let other = st.has_error();
                                if !tai && !other && !matches!(ap, AP::Publish { qos: 2, .. }) {
                                    return Err(fail("C13.inbound_wrong_topic", "use_unbound_silent", "inbound PUBLISH with an unbound alias was neither rejected nor delivered"));
                                }
                            }
                        }
                    }
                    None => {
                        for d in &delivered {
                            if let AP::Publish { topic: dt, .. } = d {
                                if dt != topic {
                                    return Err(fail("C13.inbound_wrong_topic", "plain", format!("inbound PUBLISH topic {topic:?} delivered as {dt:?}")));
                                }
                            }
                        }
                    }
                }
            }
        }
        Ok(())
    }
}

pub fn profile() -> Profile {
    let mut p = Profile::general();
    p.publish = 22;
    p.peer_publish = 12;
    p.peer_ack = 8;
    p.ack = 4;
    p.sub = 0;
    p.ping = 0;
    p.auth = 0;
    p.ids = 0;
    p.erase = 1;
    p.timers = 0;
    p.opts = 5;
    p.chunk = 0;
    p.rehandshake = 0;
    p.max_alias = 3;
    p.rm_small = true;
    p.max_segments = 3;
    p.max_body = 35;
    p.alias_heavy = true;
    p
}

pub fn strategy() -> proptest::strategy::BoxedStrategy<History> {
    use proptest::prelude::*;
    crate::checks::c12::v5_cfg().prop_flat_map(|cfg| history_for(profile(), cfg, no_hostile())).boxed()
}

pub fn test(h: &History, st: &mut Stats) -> R {
    let mut m = AliasModel::new();
    let (_w, out, r) = run_history(h, &mut [&mut m]);
    count_outcome(&out, st);
    r?;
    st.count("steps", m.steps);
    st.count("steps_while_connected", m.steps_connected);
    if std::env::var("VERIF_DEBUG_C13").is_ok() { for (k, v) in &m.error_disconnects { st.count(&format!("end: {k}"), *v); } }
    st.count("local_publishes_while_connected", m.local_publish_connected);
    st.count("local_publishes_with_peer_topic_alias_maximum_gt_0", m.local_publish_with_send_alias_max);
    st.count("local_alias_use_publishes_while_connected", m.local_use_connected);
    st.count("local_alias_use_publishes_accepted", m.local_use_accepted);
    st.count("empty_topic_publishes_requested_for_sending", m.empty_topic_sent);
    if (m.empty_topic_sent + m.empty_topic_received) > 0 && m.disturbances > 0 {
        st.nontrivial(&(h.cfg, &h.ops));
        if m.empty_topic_sent > 0 {
            st.class("empty_topic_publish_sent");
        }
        if m.empty_topic_received > 0 {
            st.class("empty_topic_publish_received");
        }
        st.sample(|| json!({"cfg": cfg_sig(&h.cfg), "ops": h.ops.len(), "empty_topic_sent": m.empty_topic_sent, "empty_topic_received": m.empty_topic_received, "rebinds_refusals_reconnects": m.disturbances}));
    }
    Ok(())
}

pub fn run(ctx: &Ctx) -> Report {
    let mut rep = Report::new(
        "v5.0 histories over 4 topics and aliases 0..=max+1 with Topic Alias Maximum in {absent,0,1,2,5} per direction: manual bind (topic,a), manual use (\"\",a), auto-map, auto-replace, QoS0/1/2, refusals in between \
         (Receive Maximum mostly 1..3, packet size, not connected), LRU pressure, closes/reconnects, stored packets, regulate_for_store; inbound binds/uses in and out of range before/after reconnect. \
         Oracle: independent receiver table per connection. non-trivial = an empty-topic publish was emitted or received after a rebind, refusal or reconnect",
    );
    let n = ctx.tier.pick(400_000, 2_000_000);
    let (st, v) = search(ctx, "c13.history", n, strategy, test);
    rep.absorb("histories", st, v, false);
    rep.assumptions.push("the intended topic of a manual (\"\", a) publish is the topic of the application's last ACCEPTED bind of a on this connection".into());
    rep.assumptions.push("publishes are identified by their unique payload tag".into());
    rep
}

pub fn replay(check: &str, case: &serde_json::Value) -> Option<R> {
    if check != "c13.history" {
        return None;
    }
    let h: History = serde_json::from_value(case.clone()).ok()?;
    let mut st = Stats::default();
    Some(test(&h, &mut st))
}
