//! C10 — connection-scoped state never leaks into the next connection or session.

use crate::ap::*;
use crate::conn::*;
use crate::engine::*;
use crate::hist::*;
use crate::scn::*;
use proptest::prelude::*;
use serde::{Deserialize, Serialize};
use serde_json::json;
use std::collections::BTreeSet;

#[derive(Clone, Debug, Serialize, Deserialize)]
pub struct LeakCase {
    /// first-connection history (ends with some close path; notify_closed is appended if missing)
    pub h: History,
    /// bytes of a partially received frame left in the framer right before the close
    #[serde(with = "crate::ap::hexser")]
    pub partial: Vec<u8>,
    /// second connection: handshake arguments and body
    pub connect: ConnectArgs,
    pub connack: ConnackArgs,
    pub second_as_client: bool,
    pub body: Vec<Op>,
    /// true: the second connection starts a new session; false: it resumes (B)
    pub new_session: bool,
}

pub fn profile_h() -> Profile {
    let mut p = Profile::general();
    p.hostile = 0;
    p.rehandshake = 0;
    p.max_segments = 2;
    p.max_body = 20;
    p.timers = 4;
    p.opts = 4;
    p.max_alias = 3;
    p
}

pub fn profile_s() -> Profile {
    let mut p = Profile::general();
    p.hostile = 0;
    p.rehandshake = 0;
    p.timers = 3;
    p.opts = 0;
    p.ids = 2;
    p.max_alias = 3;
    p.erase = 1;
    p
}

fn partial_frame() -> BoxedStrategy<Vec<u8>> {
    prop_oneof![
        3 => Just(vec![]),
        1 => Just(vec![0x30]),
        1 => Just(vec![0x32, 0x10, 0x00]),
        1 => Just(vec![0x20, 0x02, 0x00]),
        1 => Just(vec![0x10, 0x80]),
    ]
    .boxed()
}

pub fn strategy() -> BoxedStrategy<LeakCase> {
    cfg_strategy(true)
        .prop_flat_map(|cfg| {
            let v5 = cfg.ver != CVer::V311;
            let second_side = match cfg.role {
                Role::Client => Just(true).boxed(),
                Role::Server => Just(false).boxed(),
                Role::Any => {
                    if cfg.ver == CVer::Undetermined {
                        Just(false).boxed()
                    } else {
                        any::<bool>().boxed()
                    }
                }
            };
            (history_for(profile_h(), cfg, no_hostile()), partial_frame(), connect_args(v5), connack_args(v5), second_side, prop_oneof![3 => Just(true), 1 => Just(false)]).prop_flat_map(move |(h, partial, connect, connack, side, new_session)| {
                proptest::collection::vec(body_op(profile_s(), side, v5, no_hostile()), 0..22).prop_map(move |body| LeakCase { h: h.clone(), partial: partial.clone(), connect, connack, second_as_client: side, body, new_session })
            })
        })
        .boxed()
}

fn second_handshake(c: &LeakCase, v5: bool) -> Vec<Op> {
    let mut ca = c.connect;
    let mut ka = c.connack;
    ka.fail = 0;
    if c.new_session {
        // clean start, or (client) session not present
        if c.second_as_client {
            if !ca.clean {
                ka.sp = false;
            }
        } else {
            ca.clean = true;
        }
        if ca.clean {
            ka.sp = false;
        }
    } else {
        ca.clean = false;
        if v5 {
            ca.p.sei = Some(300);
            ka.p.sei = None;
        }
        ka.sp = true;
    }
    if c.second_as_client {
        vec![Op::Connect(ca), Op::PeerConnack(ka)]
    } else {
        vec![Op::PeerConnect(ca), Op::Connack(ka)]
    }
}

fn options_of(t: &Tracker) -> Vec<Op> {
    vec![
        Op::SetOpt(Opt::AutoPub(t.auto_pub)),
        Op::SetOpt(Opt::AutoPing(t.auto_ping)),
        Op::SetOpt(Opt::AutoMap(t.auto_map)),
        Op::SetOpt(Opt::AutoReplace(t.auto_replace)),
        Op::SetOpt(Opt::Offline(t.offline)),
        Op::SetOpt(Opt::PingrespTimeout(t.pingresp_timeout)),
        Op::SetOpt(Opt::PingInterval(t.ping_override)),
    ]
}

fn step_kind(s: &Step) -> String {
    match &s.call {
        Call::Send(ap) => format!("send/{}", ap.kind_name()),
        Call::Recv { ap: Some(ap), .. } => format!("recv/{}", ap.kind_name()),
        Call::Recv { .. } => "recv/raw".into(),
        Call::Timer(k) => format!("timer/{k:?}"),
        Call::Closed => "notify_closed".into(),
        Call::Acquire(_) => "acquire".into(),
        Call::Register(..) => "register".into(),
        Call::Release(_) => "release".into(),
        Call::Erase(_) => "erase".into(),
        Call::SetOpt(_) => "setopt".into(),
        Call::Skipped(w) => format!("skipped/{w}"),
        Call::Unbuildable(_) => "unbuildable".into(),
    }
}

pub fn test(c: &LeakCase, st: &mut Stats) -> R {
    let cfg = c.h.cfg;
    // ---- X: first connection
    let mut x = World::new(cfg);
    // the partial frame arrives on the first connection's transport, i.e. before its final notify_closed
    let mut first_ops: Vec<Op> = c.h.ops.clone();
    if matches!(first_ops.last(), Some(Op::Closed)) {
        first_ops.pop();
    }
    for op in &first_ops {
        x.exec(op);
        if x.dead {
            st.aborted_by_panic += 1;
            return Ok(());
        }
    }
    if !c.partial.is_empty() && !x.t.close_requested && !x.t.closed_reported {
        x.exec(&Op::Chunk(0));
        x.exec(&Op::PeerRaw(c.partial.clone()));
    }
    let had_partial = x.c.state().iter().any(|(k, v)| k == "packet_builder" && !v.starts_with("fixed_header::"));
    // what the first connection negotiated / left behind (for the non-triviality rule)
    let left: Vec<&str> = {
        let t = &x.t;
        let mut l = Vec::new();
        if t.peer_rm.is_some() || t.own_rm.is_some() {
            l.push("receive_maximum");
        }
        if t.send_alias_max > 0 || t.recv_alias_max > 0 {
            l.push("topic_alias");
        }
        if t.mps_send.is_some() || t.mps_recv.is_some() {
            l.push("maximum_packet_size");
        }
        if t.keep_alive > 0 || t.server_keep_alive.is_some() {
            l.push("keep_alive");
        }
        if !t.armed.is_empty() {
            l.push("armed_timer");
        }
        if !x.app.sub_pending.is_empty() || !x.app.unsub_pending.is_empty() {
            l.push("pending_subscribe");
        }
        if !x.app.all_out().is_empty() {
            l.push("in_flight_publish");
        }
        if !x.c.qos2_handled().is_empty() {
            l.push("qos2_handled");
        }
        if had_partial {
            l.push("partial_frame");
        }
        l
    };
    if !x.t.closed_reported {
        x.exec(&Op::Closed);
    }
    if x.dead {
        st.aborted_by_panic += 1;
        return Ok(());
    }
    let v = x.v();
    let v5 = v == V::V5;
    // an undetermined server keeps the version it adopted (C17: behaves like a fixed-version server from then on)
    if cfg.ver == CVer::Undetermined && x.t.v.is_none() {
        return Ok(());
    }
    let hs = second_handshake(c, v5);
    let ycfg = ConnCfg { ver: if cfg.ver == CVer::Undetermined { CVer::of(v) } else { cfg.ver }, ..cfg };
    let mut y = World::new(ycfg);
    for op in options_of(&x.t) {
        y.exec(&op);
    }
    let sig_mode;
    if c.new_session {
        sig_mode = "new_session";
    } else {
        sig_mode = "resumed";
        // (B) a fresh object that is given X's export and the ids the application still holds
        if !x.t.persistent {
            return Ok(());
        }
        let stored = x.c.stored();
        let exported: BTreeSet<u32> = stored.iter().filter_map(|a| a.packet_id()).collect();
        let in_flight: BTreeSet<u32> = x.app.out_q1.iter().chain(&x.app.out_q2_rec).chain(&x.app.out_q2_rel).chain(&x.app.out_q2_comp).cloned().collect();
        if in_flight != exported {
            st.class("resumed_excluded_not_exportable");
            return Ok(());
        }
        if y.c.restore_packets(&stored).is_err() {
            return Ok(());
        }
        y.c.restore_qos2_handled(&x.c.qos2_handled());
        for id in x.app.held.clone() {
            let _ = y.c.register(id);
        }
        y.app = x.app.clone();
    }
    // common application knowledge that is not library state
    y.app.tag = x.app.tag;
    x.app.peer_ids_seen.clear();
    y.app.peer_ids_seen.clear();
    if c.new_session {
        // the new session forgets the application's old exchanges on both sides alike
    }
    y.t.v = Some(v);
    x.chunk = 0;
    y.chunk = 0;
    // ---- second connection on both
    let mut exercised = false;
    for (i, op) in hs.iter().chain(c.body.iter()).enumerate() {
        x.exec(op);
        y.exec(op);
        let (sx, sy) = (x.steps.last().unwrap().clone(), y.steps.last().unwrap().clone());
        if sx.panic.is_some() || sy.panic.is_some() {
            st.aborted_by_panic += 1;
            return Ok(());
        }
        if sx.call != sy.call || sx.events != sy.events {
            return Err(fail(
                if c.new_session { "C10.trace_ne_fresh" } else { "C10.trace_ne_restored" },
                format!("{sig_mode}/{}/{}", v.name(), step_kind(&sy)),
                format!(
                    "second connection, op #{i}: the reused object and the {} object differ (first connection left: {left:?})\n  reused: {}\n  fresh : {}",
                    if c.new_session { "freshly constructed" } else { "fresh + restored" },
                    sx.brief(),
                    sy.brief()
                ),
            ));
        }
        if i == 1 && (x.t.status != St::Connected || y.t.status != St::Connected) {
            // the second handshake did not complete (e.g. the CONNACK exceeds the announced Maximum Packet Size):
            // no new connection, nothing to compare beyond the traces so far
            st.class("second_handshake_not_completed");
            return Ok(());
        }
        if i == 1 {
            // after the handshake the whole state must be equal
            let (a, b) = (x.c.state(), y.c.state());
            let diff = state_diff(&a, &b, &[]);
            if !diff.is_empty() && c.new_session {
                let field = diff[0].split(':').next().unwrap_or("?").to_string();
                return Err(fail(&format!("C10.state_ne_fresh({field})"), format!("{sig_mode}/{}", v.name()), format!("after the handshake of the second connection the reused object differs from a fresh one: {diff:?} (first connection left: {left:?})\n  reused object, last steps:\n  {}\n  fresh object:\n  {}", x.tail(5), y.tail(2))));
            }
        }
        if i >= 2 && !matches!(sy.call, Call::Skipped(_)) {
            exercised = true;
        }
    }
    if !left.is_empty() && exercised {
        st.nontrivial(&(cfg, &c.h.ops, &c.body, c.new_session));
        for l in &left {
            st.class(&format!("first_connection_left: {l}"));
        }
        st.class(sig_mode);
        st.sample(|| json!({"cfg": cfg_sig(&cfg), "mode": sig_mode, "first_connection_ops": c.h.ops.len(), "left_behind": left, "second_connection_ops": c.body.len()}));
    }
    Ok(())
}

pub fn run(ctx: &Ctx) -> Report {
    let mut rep = Report::new(
        "first-connection history H (any traffic, negotiated properties, pending subscribes, armed timers, partial frame in the framer, role Any as client then server; ended by DISCONNECT sent/received, error close, or bare transport loss) followed by a second-connection script S. \
         (A) S starts a new session: the reused object must produce, op by op, the same events as a freshly constructed object with the same options, and equal verif_state after the handshake. \
         (B) S resumes: compared with a fresh object given the export and the ids the application holds. non-trivial = H left something behind (limit, alias, keep-alive, pending exchange, timer, partial frame) and S executed at least one op after the handshake",
    );
    let n = ctx.tier.pick(400_000, 2_000_000);
    let (st, v) = search(ctx, "c10.leak", n, strategy, test);
    rep.absorb("reused_vs_fresh", st, v, false);
    rep.assumptions.push("an undetermined server is compared with a fresh server of the version it adopted (C17: it behaves like a fixed-version server from then on)".into());
    rep.assumptions.push("(B) is skipped and counted when the first connection ends with exchanges the export cannot carry".into());
    rep
}

pub fn replay(check: &str, case: &serde_json::Value) -> Option<R> {
    if check != "c10.leak" {
        return None;
    }
    let c: LeakCase = serde_json::from_value(case.clone()).ok()?;
    let mut st = Stats::default();
    Some(test(&c, &mut st))
}

#[allow(dead_code)]
fn _u(_: &AP, _: &NEvent) {}
