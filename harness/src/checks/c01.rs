//! C01 — two endpoints built on the library interoperate, even across transport loss.

use crate::ap::*;
use crate::conn::*;
use crate::engine::*;
use crate::hist::fail;
use crate::scn::*;
use proptest::prelude::*;
use serde::{Deserialize, Serialize};
use serde_json::json;
use std::collections::{BTreeMap, VecDeque};

#[derive(Clone, Copy, Debug, PartialEq, Eq, Hash, Serialize, Deserialize)]
pub struct PairCfg {
    pub v: V,
    pub idw: usize,
    /// Receive Maximum announced by the client / by the server
    pub c_rm: Option<u16>,
    pub s_rm: Option<u16>,
    /// Topic Alias Maximum announced by the client / by the server
    pub c_tam: Option<u16>,
    pub s_tam: Option<u16>,
    /// Maximum Packet Size announced by the client / by the server (large enough for every acknowledgement)
    pub c_mps: Option<u32>,
    pub s_mps: Option<u32>,
    pub keep_alive: u16,
    pub c_auto: bool,
    pub s_auto: bool,
    pub c_auto_map: bool,
    pub c_auto_replace: bool,
    pub s_auto_map: bool,
    /// the applications answer asynchronously: manual acknowledgements (PUBACK, PUBREC, PUBREL, PUBCOMP) are queued and sent at
    /// later `AppFlush` ops, so a transport loss can fall between the receipt of a packet and the application's answer
    #[serde(default)]
    pub defer: bool,
}

#[derive(Clone, Copy, Debug, PartialEq, Eq, Hash, Serialize, Deserialize)]
pub enum How {
    Bytes(u8),
    ToFrameEnd,
    All,
}

#[derive(Clone, Debug, PartialEq, Eq, Hash, Serialize, Deserialize)]
pub enum POp {
    /// publish from the client (true) or from the server (false)
    Publish { from_client: bool, qos: u8, topic: u8, alias: AliasMode, plen: u8 },
    Subscribe,
    Unsubscribe,
    Ping,
    Deliver { to_server: bool, how: How },
    /// transport loss: a prefix of each queue (selector over its length) still arrives, the rest is discarded
    Loss { keep_c2s: u16, keep_s2c: u16 },
    /// the application of one side sends up to n + 1 of its queued answers
    AppFlush { client: bool, n: u8 },
}

#[derive(Clone, Debug, Serialize, Deserialize)]
pub struct PairCase {
    pub cfg: PairCfg,
    pub ops: Vec<POp>,
}

struct Side {
    w: World,
    /// bytes requested for sending and not yet delivered, with frame lengths
    out: VecDeque<u8>,
    frames: VecDeque<usize>,
    /// application's accepted manual alias bindings on this connection
    app_bind: BTreeMap<u16, String>,
    seen_connack: bool,
    /// answers the application owes (deferred mode)
    pending: VecDeque<Op>,
}

#[derive(Clone, Debug)]
struct Msg {
    from_client: bool,
    qos: u8,
    topic: String,
    delivered: u32,
    delivered_topic_ok: bool,
    /// the stored copy (full topic, no alias) exceeded the peer's Maximum Packet Size at a resume and was dropped with its
    /// identifier released, as C06/C14 prescribe: such a message cannot be retransmitted at all
    dropped_oversize: bool,
}

pub struct Pair {
    cfg: PairCfg,
    c: Side,
    s: Side,
    ledger: BTreeMap<Vec<u8>, Msg>,
    server_has_session: bool,
    pub losses: u32,
    pub deliveries: u64,
    pub accepted: u64,
    pub crossed_qos: u64,
    pub classes: Vec<&'static str>,
    tag: u32,
}

fn role_cfg(role: Role, c: &PairCfg) -> ConnCfg {
    ConnCfg { role, ver: CVer::of(c.v), idw: c.idw }
}

impl Pair {
    pub fn new(cfg: PairCfg) -> Pair {
        let mk = |role: Role| {
            let mut w = World::new(role_cfg(role, &cfg));
            w.strict_close = false;
            Side { w, out: VecDeque::new(), frames: VecDeque::new(), app_bind: BTreeMap::new(), seen_connack: false, pending: VecDeque::new() }
        };
        let mut p = Pair { cfg, c: mk(Role::Client), s: mk(Role::Server), ledger: BTreeMap::new(), server_has_session: false, losses: 0, deliveries: 0, accepted: 0, crossed_qos: 0, classes: vec![], tag: 0 };
        // distinct payload tags per side
        p.s.w.app.tag = 1_000_000;
        for o in [Opt::AutoPub(cfg.c_auto), Opt::AutoMap(cfg.c_auto_map), Opt::AutoReplace(cfg.c_auto_replace)] {
            p.c.w.exec(&Op::SetOpt(o));
        }
        for o in [Opt::AutoPub(cfg.s_auto), Opt::AutoPing(cfg.s_auto), Opt::AutoMap(cfg.s_auto_map)] {
            p.s.w.exec(&Op::SetOpt(o));
        }
        p
    }

    fn side(&mut self, client: bool) -> &mut Side {
        if client {
            &mut self.c
        } else {
            &mut self.s
        }
    }

    /// Execute one op on a side and handle its events (queue bytes, react as the documentation prescribes).
    fn exec(&mut self, client: bool, op: Op) -> R {
        let mut work: VecDeque<Op> = VecDeque::new();
        work.push_back(op);
        let mut guard = 0;
        while let Some(op) = work.pop_front() {
            guard += 1;
            if guard > 200 {
                return Err(fail("C01.no_termination", "reaction_chain", "a single delivery triggered more than 200 application reactions"));
            }
            let v = self.cfg.v;
            let auto = if client { self.cfg.c_auto } else { self.cfg.s_auto };
            let cfg = self.cfg;
            let has_session = self.server_has_session;
            let limited = cfg.c_mps.is_some() || cfg.s_mps.is_some();
            let sd = self.side(client);
            let stored_before = if limited { sd.w.c.stored() } else { vec![] };
            sd.w.exec(&op);
            let st = sd.w.steps.last().unwrap().clone();
            // oversize stored packets dropped at the resume (the step that completes the handshake)
            let mut dropped: Vec<Vec<u8>> = Vec::new();
            if limited && (st.recvs().iter().any(|a| matches!(a, AP::Connack { .. })) || st.sends().iter().any(|a| matches!(a, AP::Connack { .. }))) {
                for id in st.released() {
                    for sp in &stored_before {
                        if let AP::Publish { pid: Some(x), payload, .. } = sp {
                            if *x == id {
                                dropped.push(payload.clone());
                            }
                        }
                    }
                }
            }
            if let Some(p) = &st.panic {
                return Err(fail("C01.peer_error", format!("panic/{}", if client { "client" } else { "server" }), format!("the {} panicked: {p}", if client { "client" } else { "server" })));
            }
            check_wire("C01", &st, cfg.idw)?;
            let is_recv = matches!(st.call, Call::Recv { .. });
            if is_recv && st.has_error() {
                return Err(fail(
                    "C01.peer_error",
                    format!("{}/{}", if client { "client" } else { "server" }, st.errors().last().unwrap_or(&"?")),
                    format!("the {} reported a protocol error about its peer while receiving: {}\n  its last steps:\n  {}", if client { "client" } else { "server" }, brief_list(&st.events), sd.w.tail(6)),
                ));
            }
            // a manual bind that was accepted
            if let Call::Send(ap @ AP::Publish { topic, .. }) = &st.call {
                if let (Some(a), false, false) = (ap.prop_u16(pid::TOPIC_ALIAS), topic.is_empty(), st.has_error()) {
                    sd.app_bind.insert(a, topic.clone());
                }
            }
            let mut reactions: Vec<Op> = Vec::new();
            let mut deliveries: Vec<AP> = Vec::new();
            for e in &st.events {
                match e {
                    NEvent::Send { bytes, ap, .. } => {
                        sd.out.extend(bytes.iter());
                        sd.frames.push_back(bytes.len());
                        if let AP::Publish { topic, props, .. } = ap {
                            // bindings made by automatic mapping are visible to the application in the event
                            if let (Some(Prop { val: PVal::U16(a), .. }), false) = (props.iter().find(|p| p.id == pid::TOPIC_ALIAS), topic.is_empty()) {
                                sd.app_bind.insert(*a, topic.clone());
                            }
                        }
                    }
                    NEvent::Recv(ap) => match ap {
                        AP::Connect { .. } => {
                            let sp = has_session;
                            reactions.push(Op::Connack(ConnackArgs { sp, fail: 0, p: HsProps { rm: cfg.s_rm, tam: cfg.s_tam, mps: cfg.s_mps, sei: None, ska: None } }));
                        }
                        AP::Connack { code: 0, .. } => {
                            sd.seen_connack = true;
                        }
                        AP::Publish { qos, pid, .. } => {
                            deliveries.push(ap.clone());
                            if !auto {
                                match (qos, pid) {
                                    (1, Some(id)) => reactions.push(Op::Ack { kind: AckKind::Puback, sel: Sel::Arb(*id), rc: 0 }),
                                    (2, Some(id)) => reactions.push(Op::Ack { kind: AckKind::Pubrec, sel: Sel::Arb(*id), rc: 0 }),
                                    _ => {}
                                }
                            }
                        }
                        AP::Ack { kind: AckKind::Pubrec, pid, rc, .. } if !auto && rc.map(|r| r < 0x80).unwrap_or(true) => {
                            reactions.push(Op::Ack { kind: AckKind::Pubrel, sel: Sel::Arb(*pid), rc: 0 });
                        }
                        AP::Ack { kind: AckKind::Pubrel, pid, .. } if !auto => {
                            reactions.push(Op::Ack { kind: AckKind::Pubcomp, sel: Sel::Arb(*pid), rc: 0 });
                        }
                        AP::Subscribe { pid, .. } => reactions.push(Op::Suback { sel: Sel::Arb(*pid) }),
                        AP::Unsubscribe { pid, .. } => reactions.push(Op::Unsuback { sel: Sel::Arb(*pid) }),
                        AP::Pingreq { .. } if !auto => reactions.push(Op::Pingresp),
                        _ => {}
                    },
                    _ => {}
                }
            }
            let _ = v;
            if st.events.iter().any(|e| matches!(e, NEvent::Send { ap: AP::Connack { code: 0, .. }, .. })) {
                self.server_has_session = true;
            }
            for d in deliveries {
                self.record_delivery(client, &d)?;
            }
            for pl in dropped {
                if let Some(m) = self.ledger.get_mut(&pl) {
                    m.dropped_oversize = true;
                    self.classes.push("stored_copy_dropped_as_oversize_on_resume");
                }
            }
            if self.cfg.defer {
                let sd = self.side(client);
                for r in reactions {
                    if matches!(r, Op::Ack { .. }) {
                        sd.pending.push_back(r);
                    } else {
                        work.push_back(r);
                    }
                }
            } else {
                work.extend(reactions);
            }
        }
        Ok(())
    }

    fn record_delivery(&mut self, to_client: bool, ap: &AP) -> R {
        if let AP::Publish { topic, payload, qos, .. } = ap {
            match self.ledger.get_mut(payload) {
                Some(m) => {
                    if m.from_client == to_client {
                        return Err(fail("C01.content_mismatch", "direction", "a message was delivered back to its sender"));
                    }
                    m.delivered += 1;
                    if *topic != m.topic {
                        m.delivered_topic_ok = false;
                        return Err(fail(
                            "C01.content_mismatch",
                            format!("topic/{}", if m.from_client { "c2s" } else { "s2c" }),
                            format!("a QoS{} message published with topic {:?} was delivered with topic {:?}", m.qos, m.topic, topic),
                        ));
                    }
                    if *qos != m.qos {
                        return Err(fail("C01.content_mismatch", "qos", format!("published with QoS {} but delivered with QoS {qos}", m.qos)));
                    }
                    if m.qos > 0 {
                        self.crossed_qos += 1;
                    }
                }
                None => {
                    return Err(fail("C01.content_mismatch", "unknown_payload", format!("a PUBLISH was delivered whose payload was never accepted for sending: {}", ap.brief())));
                }
            }
        }
        Ok(())
    }

    fn connected(&self) -> bool {
        self.c.seen_connack && self.c.w.t.status == St::Connected && self.s.w.t.status == St::Connected
    }

    fn start_connect(&mut self) -> R {
        let cfg = self.cfg;
        let args = ConnectArgs { clean: false, keep_alive: cfg.keep_alive, p: HsProps { rm: cfg.c_rm, tam: cfg.c_tam, mps: cfg.c_mps, sei: if cfg.v == V::V5 { Some(300) } else { None }, ska: None } };
        self.c.seen_connack = false;
        self.c.app_bind.clear();
        self.s.app_bind.clear();
        self.exec(true, Op::Connect(args))
    }

    /// deliver up to `n` bytes of one queue to the other side
    fn deliver(&mut self, to_server: bool, how: How) -> R {
        let from = if to_server { &mut self.c } else { &mut self.s };
        if from.out.is_empty() {
            return Ok(());
        }
        let n = match how {
            How::Bytes(k) => (k.max(1) as usize).min(from.out.len()),
            How::ToFrameEnd => from.frames.front().cloned().unwrap_or(from.out.len()).min(from.out.len()),
            How::All => from.out.len(),
        };
        let bytes: Vec<u8> = from.out.drain(..n).collect();
        // frame bookkeeping
        let mut left = n;
        while left > 0 {
            match from.frames.front_mut() {
                Some(f) if *f <= left => {
                    left -= *f;
                    from.frames.pop_front();
                }
                Some(f) => {
                    *f -= left;
                    left = 0;
                }
                None => break,
            }
        }
        self.deliveries += 1;
        self.exec(!to_server, Op::PeerRaw(bytes))
    }

    fn loss(&mut self, keep_c2s: u16, keep_s2c: u16) -> R {
        self.losses += 1;
        let kc = pick_idx(keep_c2s, self.c.out.len() + 1);
        let ks = pick_idx(keep_s2c, self.s.out.len() + 1);
        // was a frame cut in the middle?
        let mid = |k: usize, frames: &VecDeque<usize>| -> bool {
            let mut acc = 0;
            for f in frames {
                if k == acc {
                    return false;
                }
                acc += f;
                if k < acc {
                    return true;
                }
            }
            false
        };
        if mid(kc, &self.c.frames) || mid(ks, &self.s.frames) {
            self.classes.push("loss_mid_frame");
        }
        if !self.c.w.app.out_q2_rel.is_empty() || !self.c.w.app.out_q2_comp.is_empty() || !self.s.w.app.out_q2_comp.is_empty() {
            self.classes.push("loss_between_pubrec_and_pubcomp");
        }
        if kc > 0 {
            self.deliver(true, How::Bytes(kc.min(255) as u8))?;
        }
        if ks > 0 {
            self.deliver(false, How::Bytes(ks.min(255) as u8))?;
        }
        self.c.out.clear();
        self.c.frames.clear();
        self.s.out.clear();
        self.s.frames.clear();
        self.exec(true, Op::Closed)?;
        self.exec(false, Op::Closed)?;
        for client in [true, false] {
            // the peer retransmits what was not acknowledged: only the PUBRELs of its own outbound exchanges stay owed
            self.side(client).pending.retain(|o| matches!(o, Op::Ack { kind: AckKind::Pubrel, .. }));
        }
        if !self.c.w.c.stored().is_empty() || !self.s.w.c.stored().is_empty() {
            self.classes.push("resume_with_non_empty_store");
        }
        self.start_connect()
    }

    /// the application sends up to `n` of its queued answers; an answer whose exchange no longer exists (new session,
    /// transport replaced for an inbound message) is dropped, as an application tracking its exchanges would do
    fn flush(&mut self, client: bool, n: usize) -> R {
        for _ in 0..n {
            let sd = self.side(client);
            let Some(op) = sd.pending.pop_front() else { break };
            let live = match &op {
                Op::Ack { kind, sel: Sel::Arb(id), .. } => match kind {
                    AckKind::Puback => sd.w.app.in_q1.contains(id),
                    AckKind::Pubrec => sd.w.app.in_q2_rec.contains(id),
                    AckKind::Pubcomp => sd.w.app.in_q2_comp.contains(id),
                    AckKind::Pubrel => sd.w.app.out_q2_rel.contains(id),
                },
                _ => true,
            };
            if live && sd.w.t.status == St::Connected {
                self.exec(client, op)?;
            } else if live {
                // not connected right now: the answer stays owed
                self.side(client).pending.push_front(op);
                break;
            }
        }
        Ok(())
    }

    pub fn apply(&mut self, op: &POp) -> R {
        match op {
            POp::AppFlush { client, n } => {
                if self.connected() {
                    self.flush(*client, *n as usize + 1)
                } else {
                    Ok(())
                }
            }
            POp::Deliver { to_server, how } => self.deliver(*to_server, *how),
            POp::Loss { keep_c2s, keep_s2c } => self.loss(*keep_c2s, *keep_s2c),
            _ if !self.connected() => Ok(()),
            POp::Publish { from_client, qos, topic, alias, plen } => {
                let v = self.cfg.v;
                let alias = if v == V::V5 { *alias } else { AliasMode::None };
                // the application's intention
                let sd = self.side(*from_client);
                let intended = match alias {
                    AliasMode::Use(a) => sd.app_bind.get(&a).cloned(),
                    _ => Some(TOPICS[*topic as usize % TOPICS.len()].to_string()),
                };
                let before = sd.w.app.tag;
                let op = Op::Publish { qos: *qos, topic: *topic, alias, plen: *plen, retain: false, id: IdSrc::Acquire };
                self.exec(*from_client, op)?;
                let sd = self.side(*from_client);
                let st = sd.w.steps.last().unwrap().clone();
                if let (Call::Send(AP::Publish { payload, .. }), false) = (&st.call, st.has_error()) {
                    let _ = before;
                    if let Some(t) = intended {
                        self.accepted += 1;
                        self.tag += 1;
                        if alias != AliasMode::None {
                            self.classes.push("alias_in_use");
                        }
                        self.ledger.insert(payload.clone(), Msg { from_client: *from_client, qos: *qos, topic: t, delivered: 0, delivered_topic_ok: true, dropped_oversize: false });
                    } else {
                        return Err(fail("C01.content_mismatch", "unbound_alias_accepted", "an empty-topic publish with an alias the application never bound on this connection was accepted"));
                    }
                }
                Ok(())
            }
            POp::Subscribe => self.exec(true, Op::Subscribe { id: IdSrc::Acquire, n: 1 }),
            POp::Unsubscribe => self.exec(true, Op::Unsubscribe { id: IdSrc::Acquire, n: 0 }),
            POp::Ping => self.exec(true, Op::Pingreq),
        }
    }

    /// loss-free drain to quiescence (reconnecting first if needed)
    pub fn drain(&mut self, ops: usize) -> R {
        let budget = 8 * (self.accepted + ops as u64) + 64;
        let start = self.deliveries;
        if self.c.w.t.status == St::Disconnected && self.c.w.t.closed_reported {
            self.start_connect()?;
        }
        loop {
            if self.connected() {
                self.flush(true, usize::MAX >> 1)?;
                self.flush(false, usize::MAX >> 1)?;
            }
            if self.c.out.is_empty() && self.s.out.is_empty() {
                if self.c.pending.is_empty() && self.s.pending.is_empty() {
                    break;
                }
                if !self.connected() {
                    break;
                }
                continue;
            }
            if self.deliveries - start > budget {
                return Err(fail("C01.no_termination", if self.cfg.v == V::V5 { "v5.0" } else { "v3.1.1" }, format!("the exchange did not quiesce within {budget} deliveries (accepted messages {})", self.accepted)));
            }
            if !self.c.out.is_empty() {
                self.deliver(true, How::ToFrameEnd)?;
            }
            if !self.s.out.is_empty() {
                self.deliver(false, How::ToFrameEnd)?;
            }
        }
        Ok(())
    }

    pub fn final_checks(&mut self) -> R {
        // ids the application acquired for a publish that was never handed to send() (unbuildable packet) are its own
        for client in [true, false] {
            let held: Vec<u32> = self.side(client).w.app.held.iter().cloned().collect();
            for id in held {
                let _ = self.side(client).w.c.release(id);
            }
        }
        let v = self.cfg.v.name();
        let no_loss = self.losses == 0;
        for (pl, m) in &self.ledger {
            let dir = if m.from_client { "c2s" } else { "s2c" };
            let _ = pl;
            match m.qos {
                2 => {
                    if m.delivered == 0 && m.dropped_oversize {
                        // known finding D37 (own signature, so that any other loss is still reported)
                        return Err(fail("C01.q2_not_exactly_once", format!("{v}/lost/stored_copy_oversize"), format!("an accepted QoS2 message ({dir}, topic {:?}) was never notified: its stored copy (full topic, no alias) exceeds the peer's Maximum Packet Size and was dropped at the resume", m.topic)));
                    }
                    if m.delivered != 1 {
                        return Err(fail("C01.q2_not_exactly_once", format!("{v}/{dir}/{}", if m.delivered == 0 { "lost" } else { "duplicated" }), format!("an accepted QoS2 message ({dir}, topic {:?}) was notified {} times ({} transport losses)", m.topic, m.delivered, self.losses)));
                    }
                }
                1 => {
                    if m.delivered == 0 && m.dropped_oversize {
                        // known finding D37 (own signature, so that any other loss is still reported)
                        return Err(fail("C01.q1_lost", format!("{v}/stored_copy_oversize"), format!("an accepted QoS1 message ({dir}, topic {:?}) was never notified: its stored copy (full topic, no alias) exceeds the peer's Maximum Packet Size and was dropped at the resume", m.topic)));
                    }
                    if m.delivered == 0 {
                        return Err(fail("C01.q1_lost", format!("{v}/{dir}"), format!("an accepted QoS1 message ({dir}, topic {:?}) was never notified ({} transport losses)", m.topic, self.losses)));
                    }
                    if no_loss && m.delivered != 1 {
                        return Err(fail("C01.q1_dup_without_loss", format!("{v}/{dir}"), format!("an accepted QoS1 message was notified {} times although no transport was lost", m.delivered)));
                    }
                }
                _ => {
                    if m.delivered > 1 {
                        return Err(fail("C01.q0_dup", format!("{v}/{dir}"), format!("a QoS0 message was notified {} times", m.delivered)));
                    }
                }
            }
        }
        for (name, sd, peer_rm) in [("client", &self.c, self.cfg.s_rm), ("server", &self.s, self.cfg.c_rm)] {
            let idmax = if self.cfg.idw == 2 { 65535u64 } else { u32::MAX as u64 };
            let free = sd.w.c.free_ids();
            if free != vec![(1u64, idmax)] {
                return Err(fail("C01.id_leak_at_quiescence", format!("{v}/{name}"), format!("at quiescence the {name} still has packet identifiers in use (free intervals {free:?}); application holds {:?}, in flight per events {:?}", sd.w.app.held, sd.w.app.all_out())));
            }
            let stored = sd.w.c.stored();
            if !stored.is_empty() {
                return Err(fail("C01.store_not_empty", format!("{v}/{name}"), format!("at quiescence the {name} still stores {}", stored.iter().map(|a| a.brief()).collect::<Vec<_>>().join(", "))));
            }
            if sd.w.t.status == St::Connected {
                let vac = sd.w.c.vacancy();
                let want = if self.cfg.v == V::V5 { peer_rm } else { None };
                if vac != want {
                    return Err(fail("C01.vacancy_not_restored", format!("{v}/{name}"), format!("at quiescence the {name} reports Receive Maximum vacancy {vac:?}, the peer announced {want:?}")));
                }
            }
        }
        Ok(())
    }
}

pub fn run_case(c: &PairCase, st: &mut Stats) -> R {
    let mut p = Pair::new(c.cfg);
    p.start_connect()?;
    for op in &c.ops {
        p.apply(op)?;
    }
    p.drain(c.ops.len())?;
    p.final_checks()?;
    st.count("deliveries", p.deliveries);
    st.count("accepted_messages", p.accepted);
    let mut classes = p.classes.clone();
    classes.sort();
    classes.dedup();
    if p.crossed_qos > 0 {
        st.nontrivial(&(c.cfg, &c.ops));
        st.class(if p.losses > 0 { "with_transport_loss" } else { "loss_free" });
        for k in &classes {
            st.class(k);
        }
        if c.cfg.c_rm == Some(1) || c.cfg.s_rm == Some(1) {
            st.class("receive_maximum_1");
        }
        st.sample(|| json!({"cfg": format!("{:?}", c.cfg), "ops": c.ops.len(), "accepted": p.accepted, "qos>0 deliveries": p.crossed_qos, "losses": p.losses, "classes": classes}));
    }
    Ok(())
}

pub fn cfg_strategy() -> BoxedStrategy<PairCfg> {
    let rm = || prop_oneof![2 => Just(None), 2 => Just(Some(1u16)), 1 => Just(Some(2u16)), 1 => Just(Some(65535u16))];
    let tam = || prop_oneof![2 => Just(None), 1 => Just(Some(0u16)), 2 => Just(Some(2u16)), 1 => Just(Some(5u16))];
    let mps = || prop_oneof![3 => Just(None), 1 => Just(Some(64u32)), 1 => Just(Some(200u32)), 2 => (14u32..30).prop_map(Some)];
    (
        (crate::gen::version(), prop_oneof![4 => Just(2usize), 1 => Just(4usize)]),
        (rm(), rm(), tam(), tam(), mps(), mps()),
        (prop_oneof![Just(0u16), Just(10u16)], any::<bool>(), any::<bool>(), any::<bool>(), any::<bool>(), any::<bool>(), prop_oneof![2 => Just(false), 1 => Just(true)]),
    )
        .prop_map(|((v, idw), (c_rm, s_rm, c_tam, s_tam, c_mps, s_mps), (keep_alive, c_auto, s_auto, c_auto_map, c_auto_replace, s_auto_map, defer))| PairCfg { v, idw, c_rm, s_rm, c_tam, s_tam, c_mps, s_mps, keep_alive, c_auto, s_auto, c_auto_map, c_auto_replace, s_auto_map, defer })
        .boxed()
}

pub fn pop_strategy(loss_weight: u32) -> BoxedStrategy<POp> {
    let how = prop_oneof![2 => (1u8..4).prop_map(How::Bytes), 4 => Just(How::ToFrameEnd), 2 => Just(How::All)];
    let mut alts: Vec<(u32, BoxedStrategy<POp>)> = vec![
        (8, (any::<bool>(), 0u8..=2, 0u8..3, alias_mode(2), 0u8..4).prop_map(|(from_client, qos, topic, alias, plen)| POp::Publish { from_client, qos, topic, alias, plen }).boxed()),
        (1, Just(POp::Subscribe).boxed()),
        (1, Just(POp::Unsubscribe).boxed()),
        (1, Just(POp::Ping).boxed()),
        (4, (any::<bool>(), 0u8..3).prop_map(|(client, n)| POp::AppFlush { client, n }).boxed()),
        (10, (any::<bool>(), how).prop_map(|(to_server, how)| POp::Deliver { to_server, how }).boxed()),
    ];
    if loss_weight > 0 {
        alts.push((loss_weight, (any::<u16>(), any::<u16>()).prop_map(|(keep_c2s, keep_s2c)| POp::Loss { keep_c2s, keep_s2c }).boxed()));
    }
    proptest::strategy::Union::new_weighted(alts).boxed()
}

pub fn strategy() -> BoxedStrategy<PairCase> {
    (cfg_strategy(), any::<bool>())
        .prop_flat_map(|(cfg, with_loss)| proptest::collection::vec(pop_strategy(if with_loss { 2 } else { 0 }), 1..40).prop_map(move |ops| PairCase { cfg, ops }))
        .prop_map(|mut c| {
            // at most 3 losses per case
            let mut n = 0;
            c.ops.retain(|o| {
                if matches!(o, POp::Loss { .. }) {
                    n += 1;
                    n <= 3
                } else {
                    true
                }
            });
            c
        })
        .boxed()
}

/// Resume under pressure: a QoS 2 exchange is driven by hand into its second phase (PUBREC received, PUBREL possibly
/// sent), the transport is lost there, and the tail after the resume is dominated by further QoS>0 publishes from the same
/// side and single-frame deliveries - the region where the flow-control window, the awaited sets and the store of a
/// resumed session have to agree with what the peer sees. Same interpreter and oracle as the random schedules.
pub fn pressure_strategy() -> BoxedStrategy<PairCase> {
    let tail_op = |x: bool| {
        let d = |to_server: bool| Just(POp::Deliver { to_server, how: How::ToFrameEnd });
        prop_oneof![
            6 => (1u8..=2, 0u8..3, 0u8..3).prop_map(move |(qos, topic, plen)| POp::Publish { from_client: x, qos, topic, alias: AliasMode::None, plen }),
            1 => (0u8..=2, 0u8..3).prop_map(move |(qos, topic)| POp::Publish { from_client: !x, qos, topic, alias: AliasMode::None, plen: 0 }),
            4 => d(true),
            4 => d(false),
            1 => any::<bool>().prop_map(|to_server| POp::Deliver { to_server, how: How::All }),
            3 => (any::<bool>(), 0u8..2).prop_map(|(client, n)| POp::AppFlush { client, n }),
            1 => (any::<u16>(), any::<u16>()).prop_map(|(keep_c2s, keep_s2c)| POp::Loss { keep_c2s, keep_s2c }),
        ]
    };
    (cfg_strategy(), any::<bool>(), 0u8..4, prop_oneof![Just(0u16), any::<u16>()], prop_oneof![Just(0u16), any::<u16>()], 0u8..3)
        .prop_flat_map(move |(mut cfg, x, depth, kc, ks, rmsel)| {
            // the receiver of X's publishes announces a small Receive Maximum in most cases (v5.0 only has one)
            if rmsel > 0 {
                let rm = Some(rmsel as u16);
                if x {
                    cfg.s_rm = rm;
                } else {
                    cfg.c_rm = rm;
                }
            }
            proptest::collection::vec(tail_op(x), 4..26).prop_map(move |tail| {
                let d = |to_server: bool| POp::Deliver { to_server, how: How::ToFrameEnd };
                let fl = |client: bool| POp::AppFlush { client, n: 0 };
                // handshake, one QoS 2 publish from X, PUBLISH -> Y, PUBREC -> X, [PUBREL -> Y], [PUBCOMP queued]
                let mut ops = vec![d(true), d(false), POp::Publish { from_client: x, qos: 2, topic: 0, alias: AliasMode::None, plen: 0 }, d(x), fl(!x)];
                if depth >= 1 {
                    ops.push(d(!x));
                    ops.push(fl(x));
                }
                if depth >= 2 {
                    ops.push(d(x));
                    ops.push(fl(!x));
                }
                if depth >= 3 {
                    // a second message enters before the loss
                    ops.push(POp::Publish { from_client: x, qos: 1, topic: 1, alias: AliasMode::None, plen: 1 });
                }
                ops.push(POp::Loss { keep_c2s: kc, keep_s2c: ks });
                ops.push(d(true));
                ops.push(d(false));
                ops.extend(tail.clone());
                PairCase { cfg, ops }
            })
        })
        .boxed()
}

/// Systematic single-loss enumeration: one fixed tiny workload, the loss inserted at every op position with every
/// byte cut of both queues.
#[derive(Clone, Debug, Serialize, Deserialize)]
pub struct LossSweep {
    pub cfg: PairCfg,
    pub workload: Vec<POp>,
    pub at: usize,
}

pub fn sweep_workloads() -> Vec<(PairCfg, Vec<POp>)> {
    let base = |v: V, c_auto: bool, s_auto: bool, rm: Option<u16>| PairCfg { v, idw: 2, c_rm: rm, s_rm: rm, c_tam: Some(2), s_tam: Some(2), c_mps: None, s_mps: None, keep_alive: 0, c_auto, s_auto, c_auto_map: false, c_auto_replace: false, s_auto_map: false, defer: false };
    let pubc = |qos: u8| POp::Publish { from_client: true, qos, topic: 0, alias: AliasMode::None, plen: 0 };
    let pubs = |qos: u8| POp::Publish { from_client: false, qos, topic: 1, alias: AliasMode::None, plen: 0 };
    let d = |to_server: bool| POp::Deliver { to_server, how: How::ToFrameEnd };
    let mut out = Vec::new();
    for v in [V::V311, V::V5] {
        for (ca, sa) in [(false, false), (true, true), (true, false)] {
            let rm = if v == V::V5 { Some(1) } else { None };
            // handshake deliveries, then one QoS2 c->s and one QoS1 s->c with full hand-driven delivery
            let w = vec![d(true), d(false), pubc(2), pubs(1), d(true), d(false), d(false), d(true), d(true), d(false), d(true), d(false)];
            out.push((base(v, ca, sa, rm), w));
            let w2 = vec![d(true), d(false), pubc(1), pubc(2), d(true), d(true), d(false), d(false), d(true), d(false)];
            out.push((base(v, ca, sa, None), w2));
        }
        // asynchronous applications (manual answers sent at separate steps): a loss can fall between the receipt of a PUBREC
        // and the PUBREL, or between a PUBLISH and its PUBREC; a second QoS2 message follows and re-uses freed identifiers
        let fl = |client: bool| POp::AppFlush { client, n: 0 };
        let mut cfg = base(v, false, false, None);
        cfg.defer = true;
        let one = vec![pubc(2), d(true), fl(false), d(false), fl(true), d(true), fl(false), d(false)];
        let mut w3 = vec![d(true), d(false)];
        w3.extend(one.clone());
        w3.extend(one.clone());
        out.push((cfg, w3));
        let mut w4 = vec![d(true), d(false), pubs(2), d(false), fl(true), d(true), fl(false), d(false), fl(true), d(true), pubs(2), pubc(1), d(false), d(true), fl(true), fl(false), d(true), d(false)];
        w4.push(fl(false));
        out.push((cfg, w4));
    }
    out
}

pub fn test_sweep(sw: &LossSweep, st: &mut Stats) -> R {
    // run the prefix once to learn the queue lengths at the loss point
    let mut probe = Pair::new(sw.cfg);
    probe.start_connect()?;
    for op in &sw.workload[..sw.at] {
        probe.apply(op)?;
    }
    let (lc, ls) = (probe.c.out.len(), probe.s.out.len());
    let mut n = 0u64;
    for kc in 0..=lc {
        for ks in 0..=ls {
            n += 1;
            let mut p = Pair::new(sw.cfg);
            p.start_connect()?;
            for op in &sw.workload[..sw.at] {
                p.apply(op)?;
            }
            // exact cuts: selectors chosen so that pick_idx lands on kc / ks
            let sel = |k: usize, len: usize| -> u16 { (((k as u64) << 16).div_ceil(len as u64 + 1)).min(65535) as u16 };
            let r = (|| -> R {
                p.apply(&POp::Loss { keep_c2s: sel(kc, lc), keep_s2c: sel(ks, ls) })?;
                for op in &sw.workload[sw.at..] {
                    p.apply(op)?;
                }
                p.drain(sw.workload.len())?;
                p.final_checks()
            })();
            if let Err(mut f) = r {
                f.detail = format!("loss after op #{} keeping {kc}/{lc} client->server bytes and {ks}/{ls} server->client bytes: {}", sw.at, f.detail);
                return Err(f);
            }
            st.nontrivial(&(format!("{:?}", sw.cfg), sw.at, kc, ks, &sw.workload));
        }
    }
    st.evaluations += n.saturating_sub(1);
    st.class("systematic_single_loss");
    Ok(())
}

pub fn run(ctx: &Ctx) -> Report {
    let mut rep = Report::new(
        "a Connection<Client> and a Connection<Server> exchange the bytes each requests to send through two FIFO byte queues; case = configuration (Receive Maximum, Topic Alias Maximum incl. 0, Maximum Packet Size, keep-alive, automatic responses and alias options per side, both versions, u16/u32 ids; identical on every resume) \
         + schedule of publishes QoS0/1/2 from both sides with/without manual aliases, subscribe/unsubscribe, ping, deliveries of 1-3 bytes / one frame / everything per direction, and transport losses cutting both queues at arbitrary bytes followed by notify_closed and a persistent-session resume; every case ends with a loss-free drain. \
         Oracle: no protocol error about the peer, count-bounded termination, delivery ledger per payload tag, ids/store/vacancy at quiescence. Plus resume-under-pressure schedules (a QoS 2 exchange driven into its second phase, a loss there, then mostly further QoS>0 publishes from the same side against a Receive Maximum of 1 or 2 and single-frame deliveries). Plus a systematic sweep: for fixed tiny workloads a loss at EVERY op position with EVERY byte cut of both queues. \
         non-trivial = at least one QoS>0 message crossed; classes report loss mid-frame, loss between PUBREC and PUBCOMP, resume with non-empty store, alias in use, Receive Maximum 1",
    );
    let n = ctx.tier.pick(400_000, 3_000_000);
    let (st, v) = search(ctx, "c01.pair", n, strategy, run_case);
    rep.absorb("random_schedules", st, v, false);
    let n2 = ctx.tier.pick(150_000, 1_000_000);
    let (st, v) = search(ctx, "c01.pressure", n2, pressure_strategy, run_case);
    rep.absorb("resume_in_second_phase_then_publish_pressure", st, v, false);
    let mut sweeps = Vec::new();
    for (cfg, w) in sweep_workloads() {
        let positions: Vec<usize> = if ctx.tier == Tier::Quick { (2..w.len()).step_by(2).collect() } else { (0..=w.len()).collect() };
        for at in positions {
            sweeps.push(LossSweep { cfg, workload: w.clone(), at: at.min(w.len()) });
        }
    }
    let (st, v) = enumerate(ctx, "c01.sweep", &sweeps, test_sweep);
    rep.absorb("systematic_single_loss_sweep", st, v, true);
    rep.exhaustive = false;
    rep.assumptions.push("workload ops are issued only while the client has seen CONNACK; limits are identical on every resume; Maximum Packet Size is never smaller than an acknowledgement".into());
    rep.assumptions.push("termination is count-bounded: drain needs at most 8*(accepted messages + ops) + 64 deliveries".into());
    rep.assumptions.push("the broker application answers session-present once it has accepted a CONNECT before".into());
    rep
}

pub fn replay(check: &str, case: &serde_json::Value) -> Option<R> {
    let mut st = Stats::default();
    match check {
        "c01.pair" | "c01.pressure" => {
            let c: PairCase = serde_json::from_value(case.clone()).ok()?;
            Some(run_case(&c, &mut st))
        }
        "c01.sweep" => {
            let c: LossSweep = serde_json::from_value(case.clone()).ok()?;
            Some(test_sweep(&c, &mut st))
        }
        _ => None,
    }
}
