//! C15 — keep-alive timer requests are consistent and complete.

use crate::ap::*;
use crate::conn::*;
use crate::engine::*;
use crate::hist::*;
use crate::scn::*;
use serde_json::json;
use std::collections::BTreeSet;

pub struct TimerMonitor {
    armed: BTreeSet<TK>,
    pub expiries_connected: u64,
    pub interval_changes_connected: u64,
    pub closes: u64,
    pub rearm_checks: u64,
    pub silent_accepts: u64,
}

impl TimerMonitor {
    pub fn new() -> TimerMonitor {
        TimerMonitor { armed: BTreeSet::new(), expiries_connected: 0, interval_changes_connected: 0, closes: 0, rearm_checks: 0, silent_accepts: 0 }
    }

    /// walk one returned list: cancels only for armed timers; returns the resets seen
    fn walk(&mut self, sig: &str, list: &[NEvent]) -> Result<Vec<(TK, u64)>, Fail> {
        let mut resets = Vec::new();
        for e in list {
            match e {
                NEvent::TimerCancel(k) => {
                    if !self.armed.remove(k) {
                        return Err(fail("C15.cancel_unarmed", format!("{sig}/{k:?}"), format!("RequestTimerCancel({k:?}) for a timer that is not armed: {}", brief_list(list))));
                    }
                }
                NEvent::TimerReset { kind, ms } => {
                    self.armed.insert(*kind);
                    resets.push((*kind, *ms));
                }
                _ => {}
            }
        }
        Ok(resets)
    }
}

/// the interval a client must use: application override, then Server Keep Alive, then CONNECT keep-alive
fn client_interval(t: &Tracker) -> u64 {
    if let Some(o) = t.ping_override {
        return o;
    }
    if let Some(s) = t.server_keep_alive {
        return s as u64 * 1000;
    }
    t.keep_alive as u64 * 1000
}

fn server_timeout(t: &Tracker) -> u64 {
    let ka = t.server_keep_alive.unwrap_or(t.keep_alive) as u64;
    ka * 1000 * 3 / 2
}

impl Observer for TimerMonitor {
    fn on_step(&mut self, w: &World, pre: &Tracker, _pa: &App, st: &Step) -> R {
        if st.panic.is_some() {
            return Ok(());
        }
        let armed_before = self.armed.clone();
        let t = &w.t;
        let v = t.v.map(|v| v.name()).unwrap_or("undetermined");
        let role = if t.as_client { "client" } else { "server" };
        let name = match &st.call {
            Call::Send(ap) => format!("send/{}", ap.kind_name()),
            Call::Recv { ap: Some(ap), .. } => format!("recv/{}", ap.kind_name()),
            Call::Recv { .. } => "recv/raw".into(),
            Call::Timer(k) => format!("timer/{k:?}"),
            Call::Closed => "notify_closed".into(),
            Call::SetOpt(Opt::PingInterval(_)) => "set_pingreq_send_interval".into(),
            Call::SetOpt(_) => "setopt".into(),
            Call::Acquire(_) | Call::Register(..) | Call::Release(_) | Call::Erase(_) => "id_call".into(),
            _ => "other".into(),
        };
        if let Call::Timer(k) = &st.call {
            // the expired timer is not armed any more when the call starts
            self.armed.remove(k);
            if pre.status == St::Connected {
                self.expiries_connected += 1;
            }
        }
        if let Call::SetOpt(Opt::PingInterval(_)) | Call::SetOpt(Opt::PingrespTimeout(_)) = &st.call {
            if pre.status == St::Connected {
                self.interval_changes_connected += 1;
            }
        }
        let lists: Vec<&Vec<NEvent>> = if st.calls.is_empty() { vec![&st.events] } else { st.calls.iter().map(|(_, l)| l).collect() };
        let mut all_resets: Vec<(TK, u64)> = Vec::new();
        for (c, evs) in &st.pre {
            let _ = c;
            let r = self.walk("id_call", evs)?;
            if !r.is_empty() && pre.status == St::Disconnected {
                return Err(fail("C15.armed_while_disconnected", "id_call", format!("an id-management call armed a timer while disconnected: {}", brief_list(evs))));
            }
        }
        for list in &lists {
            let resets = self.walk(&name, list)?;
            // ---- per list: a list that sends DISCONNECT leaves nothing armed
            if list.iter().any(|e| matches!(e, NEvent::Send { ap: AP::Disconnect { .. }, .. })) && !self.armed.is_empty() {
                return Err(fail("C15.armed_after_close", format!("{name}/after_disconnect/{v}"), format!("after sending DISCONNECT the timers {:?} remain armed: {}", self.armed, brief_list(list))));
            }
            all_resets.extend(resets);
        }
        let is_local = matches!(st.call, Call::Send(_) | Call::SetOpt(_) | Call::Acquire(_) | Call::Register(..) | Call::Release(_) | Call::Erase(_));
        // ---- no local call arms a timer while disconnected (a CONNECT that is accepted leaves the disconnected state)
        if is_local && pre.status == St::Disconnected && t.status == St::Disconnected && !all_resets.is_empty() {
            return Err(fail("C15.armed_while_disconnected", format!("{name}/{v}"), format!("a local call armed {:?} while the connection is disconnected: {}", all_resets, brief_list(&st.events))));
        }
        if let Call::Closed = &st.call {
            self.closes += 1;
            if !self.armed.is_empty() {
                return Err(fail("C15.armed_after_close", format!("notify_closed/{v}"), format!("after notify_closed the timers {:?} remain armed", self.armed)));
            }
        }
        // ---- client: every list that passes a packet to the transport re-arms PINGREQ with the chosen interval
        for list in &lists {
            let sends: Vec<&AP> = list.iter().filter_map(|e| if let NEvent::Send { ap, .. } = e { Some(ap) } else { None }).collect();
            if sends.is_empty() {
                continue;
            }
            let has_disconnect = sends.iter().any(|a| matches!(a, AP::Disconnect { .. }));
            let resets: Vec<u64> = list.iter().filter_map(|e| if let NEvent::TimerReset { kind: TK::PingreqSend, ms } = e { Some(*ms) } else { None }).collect();
            if t.as_client && !has_disconnect && (t.status != St::Disconnected) {
                self.rearm_checks += 1;
                let want = client_interval(t);
                let src = if t.ping_override.is_some() { "override" } else if t.server_keep_alive.is_some() { "server_keep_alive" } else { "connect_keep_alive" };
                if want == 0 {
                    if !resets.is_empty() {
                        return Err(fail("C15.armed_for_zero", format!("client/{name}/{src}/{v}"), format!("the PINGREQ interval is 0 ({src}) but the timer was armed with {resets:?}: {}", brief_list(list))));
                    }
                } else if resets.is_empty() {
                    return Err(fail("C15.client_not_rearmed", format!("{name}/{v}"), format!("the client passed {} packet(s) to the transport but did not re-arm the PINGREQ timer (interval {want} ms from {src}): {}", sends.len(), brief_list(list))));
                } else if *resets.last().unwrap() != want {
                    return Err(fail("C15.wrong_interval", format!("client/{name}/{src}/{v}"), format!("PINGREQ timer armed with {:?} ms, expected {want} ms ({src}; override {:?}, Server Keep Alive {:?}, keep-alive {})", resets, t.ping_override, t.server_keep_alive, t.keep_alive)));
                }
            }
            // PINGREQ sent arms the response timer iff a timeout is configured
            if sends.iter().any(|a| matches!(a, AP::Pingreq { .. })) {
                let pr: Vec<u64> = list.iter().filter_map(|e| if let NEvent::TimerReset { kind: TK::PingrespRecv, ms } = e { Some(*ms) } else { None }).collect();
                if t.pingresp_timeout == 0 && !pr.is_empty() {
                    return Err(fail("C15.pingresp_timer", format!("armed_for_zero/{v}"), format!("PINGRESP timer armed {pr:?} although no timeout is configured")));
                }
                // (armed once or, redundantly, several times - but always with the configured timeout)
                if t.pingresp_timeout != 0 && (pr.is_empty() || pr.iter().any(|x| *x != t.pingresp_timeout)) {
                    return Err(fail("C15.pingresp_timer", format!("not_armed/{v}"), format!("PINGREQ sent with response timeout {} ms configured, but the timer requests are {pr:?}: {}", t.pingresp_timeout, brief_list(list))));
                }
            }
        }
        // ---- server: every accepted inbound packet re-arms the receive timer with 1.5 x keep-alive, never for 0
        if let Call::Recv { bytes, ap: frame_ap } = &st.call {
            // a complete frame that is neither delivered nor answered with an error was accepted silently
            // (a retransmitted QoS 2 PUBLISH whose first copy was delivered): it re-arms the timer too
            let total: usize = st.calls.iter().map(|(n, _)| *n).sum();
            let silent_last = match (frame_ap, st.calls.last()) {
                (Some(ap), Some((_, l))) if total == bytes.len() && !st.calls.is_empty() => {
                    if !l.iter().any(|e| matches!(e, NEvent::Recv(_) | NEvent::Error(_) | NEvent::Close)) { Some(ap) } else { None }
                }
                _ => None,
            };
            for (li, list) in lists.iter().enumerate() {
                let mut accepted: Vec<&AP> = list.iter().filter_map(|e| if let NEvent::Recv(ap) = e { Some(ap) } else { None }).collect();
                if accepted.is_empty() {
                    match silent_last {
                        Some(ap) if li + 1 == lists.len() && pre.status == St::Connected => {
                            self.silent_accepts += 1;
                            accepted.push(ap)
                        }
                        _ => continue,
                    }
                }
                let resets: Vec<u64> = list.iter().filter_map(|e| if let NEvent::TimerReset { kind: TK::PingreqRecv, ms } = e { Some(*ms) } else { None }).collect();
                if !t.as_client && t.status != St::Disconnected {
                    let want = server_timeout(t);
                    let is_disc = accepted.iter().any(|a| matches!(a, AP::Disconnect { .. }));
                    if want == 0 {
                        if !resets.is_empty() {
                            return Err(fail("C15.armed_for_zero", format!("server/{name}/{v}"), format!("keep-alive is 0 (CONNECT {} / Server Keep Alive {:?}) but the receive timer was armed with {resets:?}", t.keep_alive, t.server_keep_alive)));
                        }
                    } else if !is_disc {
                        self.rearm_checks += 1;
                        if resets.is_empty() {
                            return Err(fail("C15.server_not_rearmed", format!("{name}/{v}"), format!("the server accepted {} but did not re-arm the keep-alive receive timer ({want} ms)", accepted[0].brief())));
                        }
                        if *resets.last().unwrap() != want {
                            return Err(fail("C15.wrong_interval", format!("server/{name}/{v}"), format!("receive timer armed with {resets:?} ms, expected 1.5 x keep-alive = {want} ms (CONNECT keep-alive {}, Server Keep Alive {:?})", t.keep_alive, t.server_keep_alive)));
                        }
                    }
                }
                // PINGRESP received cancels the response timer
                if accepted.iter().any(|a| matches!(a, AP::Pingresp { .. })) && self.armed.contains(&TK::PingrespRecv) {
                    return Err(fail("C15.pingresp_timer", format!("not_cancelled/{v}"), "PINGRESP was received but the response timer stays armed"));
                }
            }
        }
        // ---- expiry effects
        if let Call::Timer(k) = &st.call {
            if pre.status == St::Connected && !pre.close_requested {
                match k {
                    TK::PingreqSend => {
                        let fits = pre.mps_send.map(|m| m >= 2).unwrap_or(true);
                        if fits && !st.sends().iter().any(|a| matches!(a, AP::Pingreq { .. })) {
                            return Err(fail("C15.expiry_effect", format!("PingreqSend/{v}/{role}"), format!("the PINGREQ timer expired on an established connection but no PINGREQ was requested: {}", brief_list(&st.events))));
                        }
                    }
                    TK::PingreqRecv | TK::PingrespRecv => {
                        let close = st.events.iter().any(|e| matches!(e, NEvent::Close));
                        let disc = st.sends().iter().any(|a| matches!(a, AP::Disconnect { rc: Some(0x8D), .. }));
                        let fits = pre.mps_send.map(|m| m >= 4).unwrap_or(true);
                        let ok = match t.v {
                            Some(V::V311) => close,
                            Some(V::V5) => close && (disc || !fits),
                            None => true,
                        };
                        if !ok {
                            return Err(fail("C15.expiry_effect", format!("{k:?}/{v}"), format!("keep-alive timeout on an established connection: close={close} disconnect_0x8D={disc}: {}", brief_list(&st.events))));
                        }
                    }
                }
            }
        }
        // ---- nothing but a close, a DISCONNECT (sent or received), an interval change or an interval of 0 disarms the
        //      PINGREQ timer of an established client: a call that found it armed leaves it armed
        if t.as_client && pre.status != St::Disconnected && t.status == St::Connected && !t.close_requested && armed_before.contains(&TK::PingreqSend) && !self.armed.contains(&TK::PingreqSend) {
            let want = client_interval(t);
            let disconnect_seen = st.recvs().iter().any(|a| matches!(a, AP::Disconnect { .. })) || st.sends().iter().any(|a| matches!(a, AP::Disconnect { .. }));
            let interval_change = matches!(st.call, Call::SetOpt(Opt::PingInterval(_)));
            let fits = t.mps_send.map(|m| m >= 2).unwrap_or(true);
            if want > 0 && fits && !disconnect_seen && !interval_change {
                let src = if t.ping_override.is_some() { "override" } else if t.server_keep_alive.is_some() { "server_keep_alive" } else { "connect_keep_alive" };
                return Err(fail("C15.client_timer_disarmed", format!("{name}/{src}/{v}"), format!("the client stays connected with a PINGREQ interval of {want} ms ({src}; override {:?}, Server Keep Alive {:?}, keep-alive {}) but this call disarmed the PINGREQ timer: {}", t.ping_override, t.server_keep_alive, t.keep_alive, brief_list(&st.events))));
            }
        }
        let _ = role;
        Ok(())
    }
}

pub fn profile() -> Profile {
    let mut p = Profile::general();
    p.timers = 10;
    p.opts = 6;
    p.ping = 6;
    p.publish = 6;
    p.peer_publish = 6;
    p.ack = 3;
    p.peer_ack = 4;
    p.ids = 1;
    p.sub = 2;
    p.erase = 0;
    p.hostile = 0;
    p.rehandshake = 0;
    p.max_segments = 4;
    p
}

pub fn test(h: &History, st: &mut Stats) -> R {
    let mut m = TimerMonitor::new();
    let (_w, out, r) = run_history(h, &mut [&mut m]);
    count_outcome(&out, st);
    r?;
    st.count("rearm_checks", m.rearm_checks);
    st.count("silently_accepted_frames_checked", m.silent_accepts);
    if (m.expiries_connected + m.interval_changes_connected) > 0 && m.closes > 0 {
        st.nontrivial(&(h.cfg, &h.ops));
        if m.expiries_connected > 0 {
            st.class("timer_expiry_while_connected");
        }
        if m.interval_changes_connected > 0 {
            st.class("interval_change_while_connected");
        }
        st.sample(|| json!({"cfg": cfg_sig(&h.cfg), "ops": h.ops.len(), "expiries_while_connected": m.expiries_connected, "interval_changes_while_connected": m.interval_changes_connected, "closes": m.closes, "rearm_checks": m.rearm_checks}));
    }
    Ok(())
}

pub fn run(ctx: &Ctx) -> Report {
    let mut rep = Report::new(
        "histories with keep-alive in {0,1,10,65535}, Server Keep Alive in {absent,0,7}, set_pingreq_send_interval in {None,Some(0),Some(3000)} and set_pingresp_recv_timeout in {0,5000} at arbitrary points, \
         sends and receives of all kinds, expiries of armed timers only, closes, DISCONNECTs, reconnects; client, server and Any; both versions. Oracle: armed-set consistency, interval priority, 1.5 x keep-alive, expiry effects. \
         non-trivial = a timer expired or an interval changed while connected, and the history has a close",
    );
    let n = ctx.tier.pick(400_000, 2_000_000);
    let (st, v) = search(ctx, "c15.history", n, || history(profile(), true, no_hostile()), test);
    rep.absorb("histories", st, v, false);
    rep.assumptions.push("'local call' excludes recv and notify_timer_fired; an accepted CONNECT leaves the disconnected state and may arm the PINGREQ timer".into());
    rep.assumptions.push("expiry effects are asserted while the connection is established and no close has been requested yet".into());
    rep
}

pub fn replay(check: &str, case: &serde_json::Value) -> Option<R> {
    if check != "c15.history" {
        return None;
    }
    let h: History = serde_json::from_value(case.clone()).ok()?;
    let mut st = Stats::default();
    Some(test(&h, &mut st))
}
