//! C12 — Receive Maximum flow control is exact in both directions.

use crate::ap::*;
use crate::conn::*;
use crate::engine::*;
use crate::hist::*;
use crate::scn::*;
use serde_json::json;
use std::collections::BTreeSet;

pub struct FlowModel {
    /// outbound QoS>0 exchanges of this connection that are incomplete (ids)
    pub counted: BTreeSet<u32>,
    /// inbound QoS>0 PUBLISH ids not yet acknowledged by us
    pub inb: BTreeSet<u32>,
    /// ids of inbound publishes that were rejected after the window check (may or may not count)
    pub maybe: BTreeSet<u32>,
    /// outbound exchanges between PUBREC and PUBREL carried over from an earlier connection: they may be counted
    /// from the resume or from the moment their PUBREL is sent (both readings of "of this connection" are accepted)
    pub out_maybe: BTreeSet<u32>,
    pub was_full: bool,
    pub after_full: u64,
    pub inbound_excess: u64,
    pub checks: u64,
}

impl FlowModel {
    pub fn new() -> FlowModel {
        FlowModel { counted: BTreeSet::new(), inb: BTreeSet::new(), maybe: BTreeSet::new(), out_maybe: BTreeSet::new(), was_full: false, after_full: 0, inbound_excess: 0, checks: 0 }
    }
}

fn is_resend_step(pre: &Tracker, st: &Step) -> bool {
    // the call that completes the handshake re-sends the store
    pre.status == St::Connecting
        && (st.recvs().iter().any(|a| matches!(a, AP::Connack { code: 0, .. })) || st.sends().iter().any(|a| matches!(a, AP::Connack { code: 0, .. })))
}

impl Observer for FlowModel {
    fn on_step(&mut self, w: &World, pre: &Tracker, _pa: &App, st: &Step) -> R {
        if st.panic.is_some() {
            return Ok(());
        }
        let t = &w.t;
        // a new connection starts with an empty window in both directions
        if t.conn_seq != pre.conn_seq {
            self.counted.clear();
            self.inb.clear();
            self.maybe.clear();
            self.out_maybe.clear();
        }
        let m_before = if pre.status == St::Connected { pre.peer_rm } else { None };
        match &st.call {
            Call::Send(ap) => match ap {
                AP::Publish { qos, pid: Some(id), v: V::V5, .. } if *qos > 0 => {
                    let refused_rm = st.errors().iter().any(|e| *e == "ReceiveMaximumExceeded");
                    let accepted = !st.has_error();
                    if let Some(m) = m_before {
                        let n = self.counted.len();
                        if accepted && n >= m as usize {
                            return Err(fail("C12.accepted_over_limit", format!("M={}", m.min(4)), format!("a QoS>0 PUBLISH was accepted while {n} outbound exchanges are incomplete and the peer's Receive Maximum is {m}")));
                        }
                        if refused_rm && n + self.out_maybe.len() < m as usize {
                            return Err(fail("C12.refused_under_limit", format!("M={}", m.min(4)), format!("a QoS>0 PUBLISH was refused with ReceiveMaximumExceeded while only {n} of {m} exchanges are incomplete")));
                        }
                        if accepted {
                            self.counted.insert(*id);
                        }
                    } else if refused_rm && pre.status == St::Connected {
                        return Err(fail("C12.refused_under_limit", "no_limit", "ReceiveMaximumExceeded although the peer announced no Receive Maximum on this connection"));
                    }
                }
                AP::Ack { kind: AckKind::Puback, pid, .. } | AP::Ack { kind: AckKind::Pubcomp, pid, .. } if !st.has_error() => {
                    self.inb.remove(pid);
                }
                AP::Ack { kind: AckKind::Pubrec, pid, rc: Some(rc), .. } if !st.has_error() && *rc >= 0x80 => {
                    self.inb.remove(pid);
                }
                _ => {}
            },
            Call::Erase(id) => {
                if st.released().contains(id) {
                    self.counted.remove(id);
                }
            }
            Call::Recv { ap, .. } => {
                // inbound direction
                if let (Some(AP::Publish { qos, pid: Some(id), props, topic, v: V::V5, .. }), Some(r), St::Connected) = (ap, pre.own_rm, pre.status) {
                    let frame_len = crate::refcodec::encode(ap.as_ref().unwrap(), t.cfg.idw).len();
                    let fits = pre.mps_recv.map(|m| frame_len <= m as usize).unwrap_or(true);
                    let delivered_any = st.recvs().iter().any(|a| matches!(a, AP::Publish { .. }));
                    if *qos > 0 && !delivered_any {
                        // rejected after the window check, or a suppressed QoS2 duplicate: may or may not occupy the window
                        self.maybe.insert(*id);
                    }
                    if *qos > 0 && delivered_any && !(props.is_empty() && !topic.is_empty() && fits) {
                        self.inb.insert(*id);
                    }
                    if *qos > 0 && props.is_empty() && !topic.is_empty() && fits {
                        let rme = st.errors().iter().any(|e| *e == "ReceiveMaximumExceeded");
                        let delivered = st.recvs().iter().any(|a| matches!(a, AP::Publish { .. }));
                        let fresh = !self.inb.contains(id) && !self.maybe.contains(id);
                        if fresh && self.inb.len() >= r as usize {
                            self.inbound_excess += 1;
                            let disc = st.sends().iter().any(|a| matches!(a, AP::Disconnect { rc: Some(0x93), .. }));
                            let fits = pre.mps_send.map(|m| m >= 4).unwrap_or(true);
                            if delivered || !rme || (!disc && fits) {
                                return Err(fail(
                                    "C12.inbound_excess_delivered",
                                    format!("R={}", r.min(4)),
                                    format!("the peer has {} unacknowledged QoS>0 PUBLISH outstanding (own Receive Maximum {r}) and sent one more: delivered={delivered} error={rme} disconnect_0x93={disc}", self.inb.len()),
                                ));
                            }
                        } else if self.inb.len() + self.maybe.len() < r as usize && rme {
                            return Err(fail("C12.inbound_false_excess", format!("R={}", r.min(4)), format!("ReceiveMaximumExceeded reported with only {} of {r} inbound PUBLISH unacknowledged", self.inb.len())));
                        }
                        if delivered {
                            self.inb.insert(*id);
                        }
                    }
                } else if let (Some(AP::Publish { qos, pid: Some(id), .. }), St::Connected) = (ap, pre.status) {
                    if *qos > 0 && st.recvs().iter().any(|a| matches!(a, AP::Publish { .. })) {
                        self.inb.insert(*id);
                    }
                }
            }
            _ => {}
        }
        // automatic acknowledgements sent by the library free the inbound window as well
        if !matches!(st.call, Call::Send(_)) {
            for s in st.sends() {
                match s {
                    AP::Ack { kind: AckKind::Puback, pid, .. } | AP::Ack { kind: AckKind::Pubcomp, pid, .. } => {
                        self.inb.remove(pid);
                    }
                    _ => {}
                }
            }
        }
        if is_resend_step(pre, st) && t.peer_rm.is_some() {
            // awaited exchanges that are not retransmitted now (pending PUBREL, awaited without being stored)
            let resent: BTreeSet<u32> = st.sends().iter().filter_map(|a| a.packet_id()).collect();
            self.out_maybe = _pa.all_out().into_iter().filter(|id| !resent.contains(id) && !_pa.sub_pending.contains(id) && !_pa.unsub_pending.contains(id)).collect();
        }
        // a PUBREL sent on this connection definitely belongs to it
        if let Call::Send(AP::Ack { kind: AckKind::Pubrel, pid, .. }) = &st.call {
            if !st.has_error() && self.out_maybe.remove(pid) && t.peer_rm.is_some() {
                self.counted.insert(*pid);
            }
        }
        for s in st.sends() {
            if let (AP::Ack { kind: AckKind::Pubrel, pid, .. }, false) = (s, matches!(st.call, Call::Send(_))) {
                if !is_resend_step(pre, st) && self.out_maybe.remove(pid) && t.peer_rm.is_some() {
                    self.counted.insert(*pid);
                }
            }
        }
        // retransmission of the store after the handshake occupies the window
        if is_resend_step(pre, st) && t.peer_rm.is_some() {
            for s in st.sends() {
                match s {
                    AP::Publish { qos, pid: Some(id), .. } if *qos > 0 => {
                        self.counted.insert(*id);
                    }
                    AP::Ack { kind: AckKind::Pubrel, pid, .. } => {
                        self.counted.insert(*pid);
                    }
                    _ => {}
                }
            }
        }
        // an exchange whose identifier is released is over, whatever ended it
        for id in st.released() {
            self.out_maybe.remove(&id);
            if self.counted.remove(&id) && self.was_full {
                self.after_full += 1;
            }
        }
        // completions
        for a in st.recvs() {
            if let AP::Ack { kind, pid, .. } = a {
                if *kind != AckKind::Pubrel && *kind != AckKind::Pubrec {
                    self.out_maybe.remove(pid);
                }
            }
            match a {
                AP::Ack { kind: AckKind::Puback, pid, .. } | AP::Ack { kind: AckKind::Pubcomp, pid, .. } => {
                    if self.counted.remove(pid) && self.was_full {
                        self.after_full += 1;
                    }
                }
                AP::Ack { kind: AckKind::Pubrec, pid, rc: Some(rc), v: V::V5, .. } if *rc >= 0x80 => {
                    if self.counted.remove(pid) && self.was_full {
                        self.after_full += 1;
                    }
                }
                _ => {}
            }
        }
        // vacancy is exact while the connection is established
        if t.status == St::Connected && !t.close_requested {
            let vac = w.c.vacancy();
            let want = t.peer_rm.map(|m| (m as usize).saturating_sub(self.counted.len()).min(65535) as u16);
            let want_lo = t.peer_rm.map(|m| (m as usize).saturating_sub(self.counted.len() + self.out_maybe.len()).min(65535) as u16);
            self.checks += 1;
            let in_range = match (vac, want_lo, want) {
                (Some(v), Some(lo), Some(hi)) => lo <= v && v <= hi,
                (a, _, b) => a == b,
            };
            if !in_range {
                return Err(fail(
                    "C12.vacancy_ne_model",
                    format!("{}", match &st.call {
                        Call::Send(ap) => format!("send/{}", ap.kind_name()),
                        Call::Recv { ap: Some(ap), .. } => format!("recv/{}", ap.kind_name()),
                        Call::Erase(_) => "erase".into(),
                        _ => "other".into(),
                    }),
                    format!("get_receive_maximum_vacancy_for_send() = {vac:?}, but the peer's Receive Maximum is {:?} and {} outbound exchanges of this connection are incomplete {:?}", t.peer_rm, self.counted.len(), self.counted),
                ));
            }
            if let Some(m) = t.peer_rm {
                if self.counted.len() >= m as usize {
                    self.was_full = true;
                }
            }
        }
        Ok(())
    }
}

pub fn profile() -> Profile {
    let mut p = Profile::general();
    p.publish = 16;
    p.peer_ack = 14;
    p.peer_publish = 8;
    p.ack = 6;
    p.erase = 3;
    p.ids = 0;
    p.sub = 1;
    p.ping = 1;
    p.auth = 0;
    p.timers = 0;
    p.rehandshake = 0;
    p.max_alias = 1;
    p.max_body = 35;
    p.rm_small = true;
    p
}

pub fn v5_cfg() -> proptest::strategy::BoxedStrategy<ConnCfg> {
    use proptest::prelude::*;
    (proptest::sample::select(vec![Role::Client, Role::Server, Role::Any]), prop_oneof![4 => Just(2usize), 1 => Just(4usize)]).prop_map(|(role, idw)| ConnCfg { role, ver: CVer::V5, idw }).boxed()
}

pub fn strategy() -> proptest::strategy::BoxedStrategy<History> {
    use proptest::prelude::*;
    v5_cfg().prop_flat_map(|cfg| history_for(profile(), cfg, no_hostile())).boxed()
}

pub fn test(h: &History, st: &mut Stats) -> R {
    let mut m = FlowModel::new();
    let (_w, out, r) = run_history(h, &mut [&mut m]);
    count_outcome(&out, st);
    r?;
    st.count("vacancy_checks", m.checks);
    if m.was_full && m.after_full > 0 {
        st.nontrivial(&(h.cfg, &h.ops));
        st.class("window_full_then_completion");
        st.sample(|| json!({"cfg": cfg_sig(&h.cfg), "ops": h.ops.len(), "completions_after_full_window": m.after_full, "vacancy_checks": m.checks}));
    }
    if m.inbound_excess > 0 {
        st.nontrivial(&(h.cfg, &h.ops, "inbound"));
        st.class("inbound_window_exceeded");
    }
    if m.was_full {
        st.class("window_was_full");
    }
    Ok(())
}

pub fn run(ctx: &Ctx) -> Report {
    let mut rep = Report::new(
        "v5.0 histories with peer Receive Maximum in {absent,1,2,3,65535}: QoS1/QoS2 sends up to and beyond the limit, acknowledgements (success and error codes), erasures, other refusals, closes and resumes with stored PUBLISH/PUBREL, \
         changed limits on resume; inbound: own Receive Maximum and peer publishes beyond it. Model: set of incomplete outbound exchanges of this connection / set of unacknowledged inbound ids. \
         non-trivial = the send window was full and an exchange completed afterwards, or the inbound window was exceeded",
    );
    let n = ctx.tier.pick(400_000, 2_000_000);
    let (st, v) = search(ctx, "c12.history", n, strategy, test);
    rep.absorb("histories", st, v, false);
    rep.assumptions.push("a duplicate of an inbound id that is still unacknowledged at a full window is asserted in neither direction".into());
    rep.assumptions.push("vacancy is asserted only while the connection is established (between CONNACK and a close request)".into());
    rep.assumptions.push("the application never abandons an exchange by releasing its id (ReleaseId ops are off in this profile)".into());
    rep
}

pub fn replay(check: &str, case: &serde_json::Value) -> Option<R> {
    if check != "c12.history" {
        return None;
    }
    let h: History = serde_json::from_value(case.clone()).ok()?;
    let mut st = Stats::default();
    Some(test(&h, &mut st))
}
