//! C05 — no peer-controlled input can panic or wedge a connection.

use crate::ap::*;
use crate::checks::c04::{apply_mut, Mut};
use crate::conn::*;
use crate::engine::*;
use crate::gen;
use crate::hist::*;
use crate::refcodec::{self, Frame};
use crate::scn::*;
use crate::util::panic_site;
use proptest::prelude::*;
use serde_json::json;

fn boundary_packet(v: V, idw: usize) -> BoxedStrategy<AP> {
    let idmax = if idw == 2 { 65535u32 } else { u32::MAX };
    let ids = proptest::sample::select(vec![0u32, 1, idmax]);
    let connect = (any::<bool>(), proptest::sample::select(vec![0u16, 1, 65535]), proptest::sample::select(vec![None, Some(0u16), Some(1), Some(65535)]), proptest::sample::select(vec![None, Some(1u16), Some(65535)]), proptest::sample::select(vec![None, Some(1u32), Some(2), Some(8), Some(u32::MAX)]))
        .prop_map(move |(clean, keep_alive, tam, rm, mps)| {
            let mut props = vec![];
            if v == V::V5 {
                if let Some(x) = tam {
                    props.push(Prop::u16(pid::TOPIC_ALIAS_MAXIMUM, x));
                }
                if let Some(x) = rm {
                    props.push(Prop::u16(pid::RECEIVE_MAXIMUM, x));
                }
                if let Some(x) = mps {
                    props.push(Prop::u32(pid::MAXIMUM_PACKET_SIZE, x));
                }
            }
            AP::Connect { v, clean, keep_alive, client_id: String::new(), will: None, user: None, pass: None, props }
        });
    let connack = (any::<bool>(), proptest::sample::select(vec![None, Some(0u16), Some(1), Some(65535)]), proptest::sample::select(vec![None, Some(1u16), Some(65535)]), proptest::sample::select(vec![None, Some(1u32), Some(2), Some(8)]), proptest::sample::select(vec![None, Some(0u16), Some(1)]), proptest::sample::select(vec![None, Some(0u32), Some(5)]))
        .prop_map(move |(sp, tam, rm, mps, ska, sei)| {
            let mut props = vec![];
            if v == V::V5 {
                if let Some(x) = tam {
                    props.push(Prop::u16(pid::TOPIC_ALIAS_MAXIMUM, x));
                }
                if let Some(x) = rm {
                    props.push(Prop::u16(pid::RECEIVE_MAXIMUM, x));
                }
                if let Some(x) = mps {
                    props.push(Prop::u32(pid::MAXIMUM_PACKET_SIZE, x));
                }
                if let Some(x) = ska {
                    props.push(Prop::u16(pid::SERVER_KEEP_ALIVE, x));
                }
                if let Some(x) = sei {
                    props.push(Prop::u32(pid::SESSION_EXPIRY_INTERVAL, x));
                }
            }
            AP::Connack { v, sp, code: 0, props }
        });
    let publish = (0u8..=2, ids.clone(), any::<bool>(), proptest::sample::select(vec![None, Some(0u16), Some(1), Some(65535)]), any::<bool>()).prop_map(move |(qos, id, dup, alias, empty)| {
        let mut props = vec![];
        let mut topic = "t/0".to_string();
        if v == V::V5 {
            if let Some(a) = alias {
                props.push(Prop::u16(pid::TOPIC_ALIAS, a));
                if empty {
                    topic = String::new();
                }
            }
        }
        AP::Publish { v, dup, qos, retain: false, topic, pid: if qos > 0 { Some(id) } else { None }, props, payload: vec![1, 2, 3] }
    });
    let ack = (proptest::sample::select(ALL_ACKS.to_vec()), ids.clone(), proptest::sample::select(vec![None, Some(0u8), Some(0x80), Some(0x92), Some(0x10)])).prop_map(move |(kind, pid, rc)| AP::Ack { v, kind, pid, rc: if v == V::V5 { rc } else { None }, props: None });
    let subs = (ids.clone(), 0u8..4).prop_map(move |(pid, k)| match k {
        0 => AP::Subscribe { v, pid, props: vec![], entries: vec![("a".into(), 0)] },
        1 => AP::Suback { v, pid, props: vec![], codes: vec![0] },
        2 => AP::Unsubscribe { v, pid, props: vec![], topics: vec!["a".into()] },
        _ => AP::Unsuback { v, pid, props: vec![], codes: if v == V::V5 { vec![0] } else { vec![] } },
    });
    prop_oneof![2 => connect, 2 => connack, 4 => publish, 3 => ack, 2 => subs].boxed()
}

pub fn mut_strategy() -> BoxedStrategy<Mut> {
    prop_oneof![
        3 => (any::<u16>(), 0u8..8).prop_map(|(pos, bit)| Mut::FlipBit { pos, bit }),
        2 => any::<u16>().prop_map(|pos| Mut::Truncate { pos }),
        2 => (any::<u16>(), prop_oneof![Just(0u8), Just(0x80), Just(0xFF)]).prop_map(|(pos, byte)| Mut::Insert { pos, byte }),
        2 => (any::<u16>(), prop_oneof![Just(0u16), Just(1), Just(0xFFFF)]).prop_map(|(pos, val)| Mut::SetLen16 { pos, val }),
        2 => any::<u16>().prop_map(|pos| Mut::NonMinimalVbi { pos }),
        2 => (any::<u16>(), 1u8..5).prop_map(|(pos, n)| Mut::Zero { pos, n }),
        1 => (0u8..16).prop_map(|fl| Mut::Flags { fl }),
    ]
    .boxed()
}

/// a valid packet mutated and re-framed with a correct Remaining Length (so that it reaches the parser of its kind)
pub fn mutate_packet(ap: &AP, idw: usize, muts: &[Mut]) -> Vec<u8> {
    let bytes = refcodec::encode(ap, idw);
    let (frames, _) = refcodec::frame(&bytes);
    let Frame::Complete { first, body, .. } = &frames[0] else { return bytes };
    let mut first = *first;
    let mut body = body.clone();
    for m in muts {
        apply_mut(&mut first, &mut body, m);
    }
    let mut out = vec![first];
    refcodec::vbi(body.len() as u32, &mut out);
    out.extend_from_slice(&body);
    out
}

/// mutated valid frame, re-framed with a correct Remaining Length (so that it reaches the parsers), or raw garbage
fn mutated_frame() -> BoxedStrategy<Vec<u8>> {
    let o = gen::GenOpts { big: false, beyond_spec: true };
    (gen::version(), proptest::sample::select(vec![2usize, 4]))
        .prop_flat_map(move |(v, idw)| (gen::any_packet(v, idw, o), proptest::collection::vec(mut_strategy(), 1..3), any::<bool>(), Just(idw)))
        .prop_map(|(ap, muts, reframe, idw)| {
            let bytes = refcodec::encode(&ap, idw);
            let (frames, _) = refcodec::frame(&bytes);
            let Frame::Complete { first, body, .. } = &frames[0] else { return bytes };
            let mut first = *first;
            let mut body = body.clone();
            for m in &muts {
                apply_mut(&mut first, &mut body, m);
            }
            if reframe {
                let mut out = vec![first];
                refcodec::vbi(body.len() as u32, &mut out);
                out.extend_from_slice(&body);
                out
            } else {
                // mutate the whole frame including the header
                let mut whole = bytes.clone();
                let mut f0 = whole[0];
                for m in &muts {
                    apply_mut(&mut f0, &mut whole, m);
                }
                whole
            }
        })
        .boxed()
}

pub fn hostile_op() -> BoxedStrategy<Op> {
    prop_oneof![
        4 => (gen::version(), proptest::sample::select(vec![2usize, 4])).prop_flat_map(|(v, idw)| boundary_packet(v, idw)).prop_map(Op::PeerPacket),
        4 => mutated_frame().prop_map(Op::PeerRaw),
        1 => proptest::collection::vec(prop_oneof![Just(0u8), 0u8..16, any::<u8>()], 1..8).prop_map(Op::PeerRaw),
        1 => Just(Op::PeerRaw(vec![0x30, 0x80, 0x80, 0x80, 0x80, 0x00])),
    ]
    .boxed()
}

pub struct Robust {
    /// bytes fed since the last frame boundary
    pending: Vec<u8>,
    pub frames: u64,
    pub hostile_after_connected: u64,
    pub first_hostile_state: Option<String>,
    /// identifiers in use and packets stored before the current call: each may legitimately produce one event
    last_in_use: usize,
    last_stored: usize,
}

impl Robust {
    pub fn new() -> Robust {
        Robust { pending: vec![], frames: 0, hostile_after_connected: 0, first_hostile_state: None, last_in_use: 0, last_stored: 0 }
    }
}

impl Observer for Robust {
    fn on_step(&mut self, w: &World, pre: &Tracker, _pa: &App, st: &Step) -> R {
        let cfg = cfg_sig(&w.t.cfg);
        let what = match &st.call {
            Call::Send(ap) => format!("send/{}", ap.kind_name()),
            Call::Recv { ap: Some(ap), .. } => format!("recv/{}", ap.kind_name()),
            Call::Recv { .. } => "recv/raw".to_string(),
            Call::Timer(k) => format!("timer/{k:?}"),
            Call::Closed => "notify_closed".into(),
            Call::Acquire(_) => "acquire".into(),
            Call::Register(..) => "register".into(),
            Call::Release(_) => "release".into(),
            Call::Erase(_) => "erase".into(),
            Call::SetOpt(_) => "setopt".into(),
            _ => "other".into(),
        };
        if let Some(p) = &st.panic {
            return Err(fail("C05.panic", format!("{}/{}", what, panic_site(p)), format!("[{cfg}] the call panicked: {p}")));
        }
        if let Some(p) = &st.wedge {
            return Err(fail("C05.no_progress", format!("{what}"), format!("[{cfg}] {p}")));
        }
        // one call legitimately returns at most one release per identifier in use and one retransmission per stored
        // packet, plus a constant number of protocol events
        let stored_now = w.c.stored().len();
        let max_id: u64 = if w.t.cfg.idw == 2 { 65535 } else { u32::MAX as u64 };
        let free: u64 = w.c.free_ids().iter().map(|(l, h)| h - l + 1).sum();
        let in_use_now = (max_id - free.min(max_id)) as usize;
        let bound = self.last_stored.max(stored_now) + self.last_in_use + 32;
        self.last_stored = stored_now;
        let in_use_before = self.last_in_use;
        self.last_in_use = in_use_now;
        let lists: Vec<&Vec<NEvent>> = if st.calls.is_empty() { vec![&st.events] } else { st.calls.iter().map(|(_, l)| l).collect() };
        for list in lists {
            if list.len() > bound {
                return Err(fail("C05.event_flood", &what, format!("[{cfg}] a single call returned {} events (bound: stored packets + {in_use_before} identifiers in use + 32 = {bound})", list.len())));
            }
        }
        match &st.call {
            Call::Closed => self.pending.clear(),
            Call::Recv { bytes, ap } => {
                let hostile = matches!(st.op, Op::PeerRaw(_) | Op::PeerPacket(_));
                if hostile && pre.status == St::Connected {
                    self.hostile_after_connected += 1;
                    if self.first_hostile_state.is_none() {
                        self.first_hostile_state = Some(format!("{:?}", pre.status));
                    }
                }
                self.pending.extend_from_slice(bytes);
                let (frames, rest) = refcodec::frame(&self.pending);
                let k = frames.len();
                self.frames += k as u64;
                let keep = self.pending.len() - rest;
                self.pending.drain(..keep);
                // dispositions: delivered, reported, or answered as a QoS2 duplicate
                let delivered = st.events.iter().filter(|e| matches!(e, NEvent::Recv(_))).count();
                let errors = st.events.iter().filter(|e| matches!(e, NEvent::Error(_))).count();
                // "answered as a protocol-level duplicate": a PUBREC that does not accompany a delivered QoS2 PUBLISH
                let pubrecs = st.events.iter().filter(|e| matches!(e, NEvent::Send { ap: AP::Ack { kind: AckKind::Pubrec, .. }, .. })).count();
                let delivered_q2 = st.events.iter().filter(|e| matches!(e, NEvent::Recv(AP::Publish { qos: 2, .. }))).count();
                let mut dup_ok = pubrecs.saturating_sub(delivered_q2);
                let _ = ap;
                // a QoS2 PUBLISH whose id is in the handled set is a duplicate even when no PUBREC can be sent
                // (weaker reading: before CONNACK / after an error the answer cannot be transmitted)
                let handled = w.c.qos2_handled();
                // on an established connection that stays established the duplicate must really be answered (the PUBREC
                // fits every Maximum Packet Size >= 6); only when nothing can be transmitted is the handled set enough
                let must_answer = k == 1 && pre.status == St::Connected && w.t.status == St::Connected && !pre.close_requested && pre.mps_send.map(|m| m >= 6).unwrap_or(true);
                for f in &frames {
                    if must_answer {
                        break;
                    }
                    if let Frame::Complete { first, body, .. } = f {
                        if first >> 4 == 3 && (first >> 1) & 3 == 2 && body.len() >= 2 {
                            let tl = ((body[0] as usize) << 8) | body[1] as usize;
                            let idw = w.t.cfg.idw;
                            if body.len() >= 2 + tl + idw {
                                let idb = &body[2 + tl..2 + tl + idw];
                                let id = idb.iter().fold(0u32, |a, b| (a << 8) | *b as u32);
                                if handled.contains(&id) {
                                    dup_ok += 1;
                                }
                            }
                        }
                    }
                }
                if delivered + errors + dup_ok < k {
                    return Err(fail(
                        "C05.silent_frame",
                        format!("{what}/{:?}", pre.status),
                        format!("[{cfg}] {k} complete frame(s) were fed but only {delivered} delivered + {errors} error event(s) came back: a received packet was neither delivered nor reported"),
                    ));
                }
            }
            _ => {}
        }
        Ok(())
    }

    fn finish(&mut self, w: &mut World) -> R {
        // after the application reports the transport closed the object accepts a new connection
        if w.dead {
            return Ok(());
        }
        w.exec(&Op::Chunk(0));
        w.exec(&Op::Closed);
        if let Some(p) = &w.steps.last().unwrap().panic {
            return Err(fail("C05.panic", format!("notify_closed/{}", panic_site(p)), p.clone()));
        }
        let cfg = w.t.cfg;
        // an undetermined server may have adopted a version from a CONNECT that was then rejected: the fresh handshake uses
        // the version the object reports (C17 decides what auto-detection may adopt)
        let v = match w.c.protocol_version().as_str() {
            "V3_1_1" => V::V311,
            "V5_0" => V::V5,
            _ => w.t.v.unwrap_or(V::V5),
        };
        let args = ConnectArgs { clean: true, keep_alive: 0, p: HsProps::default() };
        let as_client = cfg.role == Role::Client || (cfg.role == Role::Any && cfg.ver != CVer::Undetermined);
        let st = if as_client { w.exec(&Op::Connect(args)).clone() } else { w.exec(&Op::PeerPacket(connect_ap(v, &args))).clone() };
        if let Some(p) = &st.panic {
            return Err(fail("C05.panic", format!("reconnect/{}", panic_site(p)), p.clone()));
        }
        let ok = if as_client { st.sends().iter().any(|a| matches!(a, AP::Connect { .. })) && !st.has_error() } else { st.recvs().iter().any(|a| matches!(a, AP::Connect { .. })) };
        if !ok {
            return Err(fail("C05.not_reusable_after_close", format!("{:?}", cfg.role), format!("[{}] after notify_closed a fresh handshake was not accepted: {}", cfg_sig(&cfg), st.brief())));
        }
        Ok(())
    }
}

pub fn profile() -> Profile {
    let mut p = Profile::general();
    p.hostile = 12;
    p.rehandshake = 2;
    p.chunk = 2;
    p.max_body = 30;
    p
}

pub fn test(h: &History, st: &mut Stats) -> R {
    let mut mon = Robust::new();
    let (_w, _out, r) = run_history_mode(h, &mut [&mut mon], false);
    r?;
    st.count("peer_frames", mon.frames);
    if mon.hostile_after_connected > 0 {
        st.nontrivial(&(h.cfg, &h.ops));
        st.class("hostile_frame_after_connected");
        st.sample(|| json!({"cfg": cfg_sig(&h.cfg), "ops": h.ops.len(), "hostile_frames_after_connected": mon.hostile_after_connected, "first_ops": format!("{:?}", &h.ops[..h.ops.len().min(6)])}));
    } else {
        st.class("no_hostile_frame_after_connected");
    }
    Ok(())
}

pub fn run(ctx: &Ctx) -> Report {
    let mut rep = Report::new(
        "histories interleaving contract-respecting local calls (ids from acquire/register, timers fired only when armed, close reported) with arbitrary peer traffic: \
         valid packets, boundary-valued packets (id 0/1/max, Topic Alias Maximum 0, Receive Maximum 1, Maximum Packet Size 1..8, keep-alive 0), mutated frames, garbage, arbitrary chunking; \
         roles Client/Server/Any, v3.1.1/v5.0/undetermined. Oracle: no panic, every recv call advances, bounded event lists, every complete frame delivered/reported/duplicate, reusable after close. \
         non-trivial = reached Connected and saw >= 1 hostile/boundary frame afterwards",
    );
    let n = ctx.tier.pick(400_000, 2_000_000);
    let (st, v) = search(ctx, "c05.history", n, || history(profile(), true, hostile_op()), test);
    rep.absorb("histories", st, v, false);
    rep.assumptions.push("the application respects the documented contract (ids from acquire/register, timers fired only when armed)".into());
    rep.assumptions.push("frame dispositions are counted per op: delivered + error events + accepted QoS2 duplicate >= complete frames fed".into());
    rep
}

pub fn replay(check: &str, case: &serde_json::Value) -> Option<R> {
    if check != "c05.history" {
        return None;
    }
    let h: History = serde_json::from_value(case.clone()).ok()?;
    let mut st = Stats::default();
    Some(test(&h, &mut st))
}
