//! C17 — receive gating by role, and protocol-version auto-detection.

use crate::ap::*;
use crate::checks::c11::{prepare, Cell as SendCell, Kind, Stage};
use crate::conn::*;
use crate::engine::*;
use crate::hist::*;
use crate::refcodec;
use crate::scn::*;
use proptest::prelude::*;
use serde::{Deserialize, Serialize};
use serde_json::json;

#[derive(Clone, Debug, Serialize, Deserialize)]
pub struct RCell {
    pub role: Role,
    pub ctor: CVer,
    pub hs: V,
    pub stage: Stage,
    pub as_client: bool,
    /// packet type nibble 0..=15
    pub ty: u8,
    /// flag nibble of the first byte; 0xff = the one the reference encoder writes (canonical)
    #[serde(default = "canonical_flags")]
    pub fl: u8,
    /// content variant: CONNECT 1 = resuming (clean = false, Session Expiry); CONNACK 1 = refusing return / reason code
    #[serde(default)]
    pub var: u8,
}

fn canonical_flags() -> u8 {
    0xff
}

/// What MQTT lets the remote side of `role` send (= what `role` may receive), independent table.
pub fn role_may_receive(role: Role, ty: u8, v: V) -> bool {
    let from_server = matches!(ty, 2 | 3 | 4 | 5 | 6 | 7 | 9 | 11 | 13) || (ty == 14 && v == V::V5) || (ty == 15 && v == V::V5);
    let from_client = matches!(ty, 1 | 3 | 4 | 5 | 6 | 7 | 8 | 10 | 12 | 14) || (ty == 15 && v == V::V5);
    match role {
        Role::Client => from_server,
        Role::Server => from_client,
        Role::Any => (1..=14).contains(&ty) || (ty == 15 && v == V::V5),
    }
}

pub fn all_cells() -> Vec<RCell> {
    let mut out = Vec::new();
    for role in [Role::Client, Role::Server, Role::Any] {
        for ctor in [CVer::V311, CVer::V5, CVer::Undetermined] {
            let hss: Vec<V> = match ctor {
                CVer::V311 => vec![V::V311],
                CVer::V5 => vec![V::V5],
                CVer::Undetermined => vec![V::V311, V::V5],
            };
            for hs in hss {
                let sides: Vec<bool> = match (role, ctor) {
                    (Role::Client, CVer::Undetermined) => vec![],
                    (_, CVer::Undetermined) => vec![false],
                    (Role::Client, _) => vec![true],
                    (Role::Server, _) => vec![false],
                    (Role::Any, _) => vec![true, false],
                };
                let mut stages: Vec<(Stage, bool)> = Vec::new();
                if ctor != CVer::Undetermined || (hs == V::V311 && role != Role::Client) {
                    // (an undetermined connection has one Fresh stage, listed under the v3.1.1 handshake)
                    stages.push((Stage::Fresh, role != Role::Server && ctor != CVer::Undetermined));
                }
                for side in sides {
                    for st in [Stage::AfterClose, Stage::Connecting, Stage::Connected] {
                        stages.push((st, side));
                    }
                }
                for (stage, as_client) in stages {
                    for ty in 0u8..=15 {
                        out.push(RCell { role, ctor, hs, stage, as_client, ty, fl: 0xff, var: 0 });
                        if ty == 1 || ty == 2 {
                            out.push(RCell { role, ctor, hs, stage, as_client, ty, fl: 0xff, var: 1 });
                        }
                        // a kind the role can never receive stays forbidden whatever the flag nibble of its first byte is
                        let exists = (1..=14).contains(&ty) || (ty == 15 && hs == V::V5);
                        if !(exists && role_may_receive(role, ty, hs)) {
                            for fl in 0u8..16 {
                                out.push(RCell { role, ctor, hs, stage, as_client, ty, fl, var: 0 });
                            }
                        }
                    }
                }
            }
        }
    }
    out
}

/// ids prepared in the connected state so that every acknowledgement kind is legitimate
struct Prepared {
    q1: u32,
    q2_rec: u32,
    q2_comp: u32,
    sub: u32,
    unsub: u32,
}

fn prepare_exchanges(c: &mut dyn Conn, v: V, can_subscribe: bool) -> Result<Prepared, String> {
    let idw = c.cfg().idw;
    let acquire = |c: &mut dyn Conn| -> Result<u32, String> { c.acquire().map_err(|p| p)?.map_err(|e| e) };
    let send = |c: &mut dyn Conn, ap: &AP| -> Result<(), String> {
        let e = c.send(ap)?.map_err(|p| p)?;
        if e.iter().any(|x| matches!(x, NEvent::Error(_))) {
            return Err(format!("prepare: {} refused: {}", ap.brief(), brief_list(&e)));
        }
        Ok(())
    };
    let q1 = acquire(c)?;
    send(c, &publish_ap(v, 1, false, false, 0, AliasMode::None, Some(q1), vec![1]))?;
    let q2_rec = acquire(c)?;
    send(c, &publish_ap(v, 2, false, false, 0, AliasMode::None, Some(q2_rec), vec![2]))?;
    let q2_comp = acquire(c)?;
    send(c, &publish_ap(v, 2, false, false, 0, AliasMode::None, Some(q2_comp), vec![3]))?;
    recv_all(c, &refcodec::encode(&ack_ap(v, AckKind::Pubrec, q2_comp, 0), idw))?;
    send(c, &ack_ap(v, AckKind::Pubrel, q2_comp, 0))?;
    let (mut sub, mut unsub) = (0, 0);
    if can_subscribe {
        sub = acquire(c)?;
        send(c, &AP::Subscribe { v, pid: sub, props: vec![], entries: vec![("a".into(), 0)] })?;
        unsub = acquire(c)?;
        send(c, &AP::Unsubscribe { v, pid: unsub, props: vec![], topics: vec!["a".into()] })?;
        send(c, &AP::Pingreq { v })?;
    }
    Ok(Prepared { q1, q2_rec, q2_comp, sub, unsub })
}

fn packet_of_type(ty: u8, v: V, p: Option<&Prepared>) -> Option<AP> {
    packet_of_type_var(ty, v, p, 0)
}

fn packet_of_type_var(ty: u8, v: V, p: Option<&Prepared>, var: u8) -> Option<AP> {
    Some(match ty {
        1 if var == 1 => connect_ap(v, &ConnectArgs { clean: false, keep_alive: 10, p: HsProps { sei: Some(300), rm: Some(3), ..HsProps::default() } }),
        2 if var == 1 => connack_ap(v, &ConnackArgs { sp: false, fail: 3, p: HsProps::default() }),
        1 => connect_ap(v, &ConnectArgs { clean: true, keep_alive: 0, p: HsProps::default() }),
        2 => connack_ap(v, &ConnackArgs { sp: false, fail: 0, p: HsProps::default() }),
        3 => publish_ap(v, 1, false, false, 1, AliasMode::None, Some(9), vec![7]),
        4 => ack_ap(v, AckKind::Puback, p.map(|p| p.q1).unwrap_or(1), 0),
        5 => ack_ap(v, AckKind::Pubrec, p.map(|p| p.q2_rec).unwrap_or(1), 0),
        6 => ack_ap(v, AckKind::Pubrel, 9, 0),
        7 => ack_ap(v, AckKind::Pubcomp, p.map(|p| p.q2_comp).unwrap_or(1), 0),
        8 => AP::Subscribe { v, pid: 5, props: vec![], entries: vec![("a".into(), 0)] },
        9 => AP::Suback { v, pid: p.map(|p| p.sub).unwrap_or(1).max(1), props: vec![], codes: vec![0] },
        10 => AP::Unsubscribe { v, pid: 6, props: vec![], topics: vec!["a".into()] },
        11 => AP::Unsuback { v, pid: p.map(|p| p.unsub).unwrap_or(1).max(1), props: vec![], codes: if v == V::V5 { vec![0] } else { vec![] } },
        12 => AP::Pingreq { v },
        13 => AP::Pingresp { v },
        14 => AP::Disconnect { v, rc: None, props: None },
        15 if v == V::V5 => AP::Auth { rc: Some(0x18), props: Some(vec![Prop { id: pid::AUTHENTICATION_METHOD, val: PVal::Str("m".into()) }]) },
        _ => return None,
    })
}

const SESSION_FIELDS: [&str; 9] = ["pid_free", "pid_suback", "pid_unsuback", "pid_puback", "pid_pubrec", "pid_pubcomp", "pid_pubrel", "store", "qos2_publish_handled"];

fn rsig(c: &RCell) -> String {
    format!("{:?}/{:?}/{:?}{}/type{}{}", c.role, c.ctor, c.stage, if c.stage == Stage::Fresh { "" } else if c.as_client { "(as client)" } else { "(as server)" }, c.ty, if c.fl == 0xff { if c.var == 0 { String::new() } else { format!("/variant{}", c.var) } } else { format!("/flags{:x}", c.fl) })
}

pub fn test_cell(cell: &RCell, st: &mut Stats) -> R {
    let cfg = ConnCfg { role: cell.role, ver: cell.ctor, idw: 2 };
    let mut c = new_conn(cfg);
    let sig = rsig(cell);
    let sc = SendCell { role: cell.role, ctor: cell.ctor, hs: cell.hs, stage: cell.stage, as_client: cell.as_client, persistent: true, offline: false, kind: Kind::Pingreq, pv: cell.hs, variant: 0 };
    prepare(c.as_mut(), &sc).map_err(|e| fail("C17.allowed_not_delivered", format!("{sig}/prepare"), e))?;
    let v = cell.hs;
    let prepared = if cell.stage == Stage::Connected {
        // subscribe/unsubscribe/pingreq can only be sent by a connection that may act as a client
        let can_sub = cell.role != Role::Server;
        Some(prepare_exchanges(c.as_mut(), v, can_sub).map_err(|e| fail("C17.allowed_not_delivered", format!("{sig}/prepare_exchanges"), e))?)
    } else {
        None
    };
    let mut bytes: Vec<u8> = match packet_of_type_var(cell.ty, v, prepared.as_ref(), cell.var) {
        Some(ap) => refcodec::encode(&ap, 2),
        // non-existent types: 0 always, 15 under v3.1.1 - a syntactically complete frame
        None => vec![cell.ty << 4, 0x00],
    };
    let canonical = cell.fl == 0xff || bytes[0] & 0x0f == cell.fl;
    if cell.fl != 0xff {
        bytes[0] = (bytes[0] & 0xf0) | (cell.fl & 0x0f);
    }
    let before = c.state();
    let calls = match recv_all(c.as_mut(), &bytes) {
        Ok(c) => c,
        Err(e) => return Err(fail("C17.forbidden_no_error", format!("{sig}/panic"), e)),
    };
    let events = flat(&calls);
    let after = c.state();
    let delivered = events.iter().any(|e| matches!(e, NEvent::Recv(_)));
    let errors: Vec<&str> = events.iter().filter_map(|e| if let NEvent::Error(s) = e { Some(s.as_str()) } else { None }).collect();
    let exists = (1..=14).contains(&cell.ty) || (cell.ty == 15 && v == V::V5);
    let allowed_by_role = exists && role_may_receive(cell.role, cell.ty, v);
    let established = cell.stage == Stage::Connected;
    if !allowed_by_role {
        if delivered {
            return Err(fail("C17.forbidden_delivered", &sig, format!("a packet of type {} must never reach a {:?} connection under {}, but it was delivered: {}", cell.ty, cell.role, v.name(), brief_list(&events))));
        }
        // a kind the role can never receive is a protocol error; a type that does not exist in the version
        // (0, and 15 under v3.1.1) may be reported as protocol error or as malformed packet
        // with a non-canonical flag nibble the frame is malformed as well: either report is a rejection
        let want = if exists && canonical { "ProtocolError" } else { "ProtocolError|MalformedPacket" };
        if !errors.iter().any(|e| want.split('|').any(|w| w == *e)) {
            return Err(fail("C17.forbidden_no_error", &sig, format!("expected NotifyError({want}) for type {} on a {:?} connection under {}, got {}", cell.ty, cell.role, v.name(), brief_list(&events))));
        }
        let diff = state_diff(&before, &after, &["packet_builder"]);
        if !diff.is_empty() {
            return Err(fail("C17.forbidden_changed_state", &sig, format!("a packet the role can never receive was acted upon: {diff:?}")));
        }
        st.class("forbidden");
    } else if established && (cell.ty == 1 || cell.ty == 2) {
        // CONNECT / CONNACK on an established connection (only reachable for role Any, or CONNACK for clients / CONNECT for servers)
        if delivered || !errors.iter().any(|e| *e == "ProtocolError") {
            return Err(fail("C17.reconnect_on_established", &sig, format!("a {} on an established connection must be a protocol error and not be delivered: {}", if cell.ty == 1 { "CONNECT" } else { "CONNACK" }, brief_list(&events))));
        }
        let b: Vec<(String, String)> = before.iter().filter(|(k, _)| SESSION_FIELDS.contains(&k.as_str())).cloned().collect();
        let a: Vec<(String, String)> = after.iter().filter(|(k, _)| SESSION_FIELDS.contains(&k.as_str())).cloned().collect();
        let diff = state_diff(&b, &a, &[]);
        if !diff.is_empty() {
            return Err(fail("C17.reconnect_on_established", format!("{sig}/session_changed"), format!("session state changed: {diff:?}")));
        }
        st.class("reconnect_on_established");
    } else if cell.stage == Stage::Connecting && !cell.as_client && cell.ty == 1 {
        // a second CONNECT on a transport whose CONNECT was already accepted (CONNACK not sent yet): the status check the
        // property is anchored in refuses every CONNECT outside the disconnected state [MQTT-3.1.0-2]
        if delivered || !errors.iter().any(|e| *e == "ProtocolError") {
            return Err(fail("C17.reconnect_on_established", format!("{sig}/second_connect"), format!("a second CONNECT on the same transport must be a protocol error and not be delivered: {}", brief_list(&events))));
        }
        let b: Vec<(String, String)> = before.iter().filter(|(k, _)| SESSION_FIELDS.contains(&k.as_str())).cloned().collect();
        let a: Vec<(String, String)> = after.iter().filter(|(k, _)| SESSION_FIELDS.contains(&k.as_str())).cloned().collect();
        let diff = state_diff(&b, &a, &[]);
        if !diff.is_empty() {
            return Err(fail("C17.reconnect_on_established", format!("{sig}/second_connect/session_changed"), format!("session state changed: {diff:?}")));
        }
        st.class("second_connect_while_connecting");
    } else if established {
        // legitimate in the prepared state: must be delivered (SUBACK/UNSUBACK/PINGRESP need the client-side preparation)
        let needs_client_prep = matches!(cell.ty, 9 | 11);
        if needs_client_prep && cell.role == Role::Server {
            return Ok(());
        }
        if !delivered {
            return Err(fail("C17.allowed_not_delivered", &sig, format!("a legitimate packet of type {} was not delivered in the prepared connected state: {}", cell.ty, brief_list(&events))));
        }
        st.class("allowed_delivered");
    } else {
        st.class("allowed_not_established_unasserted");
    }
    st.nontrivial(&format!("{cell:?}"));
    if cell.ty == 8 && st.want_sample() {
        st.sample(|| json!({"cell": sig, "allowed_by_role": allowed_by_role, "events": brief_list(&events)}));
    }
    Ok(())
}

// ------------------------------------------------------------------------------------------ auto-detection

#[derive(Clone, Debug, Serialize, Deserialize)]
pub struct Script {
    pub v: V,
    pub idw: usize,
    pub ops: Vec<Op>,
}

/// A CONNECT of version `v` whose protocol name and level are intact and whose remainder is not acceptable.
fn damaged_connect(v: V, idw: usize, kind: u8) -> Vec<u8> {
    let mut b = refcodec::encode(&connect_ap(v, &ConnectArgs { clean: true, keep_alive: 0, p: HsProps::default() }), idw);
    // fixed header byte, Remaining Length (one byte for this small packet), 00 04 'M' 'Q' 'T' 'T', level, flags
    let flags = 1 + 1 + 7;
    if kind == 0 {
        b[flags] |= 1;
    } else if v == V::V5 {
        // Property Length pointing past the end of the packet
        b[flags + 3] = 0x7f;
    } else {
        // Client Identifier length pointing past the end of the packet
        b[flags + 3] = 0xff;
        b[flags + 4] = 0xff;
    }
    b
}

pub fn script_strategy() -> BoxedStrategy<Script> {
    let mut p = Profile::general();
    p.hostile = 2;
    p.offline_ops = 0;
    p.max_segments = 2;
    (crate::gen::version(), prop_oneof![4 => Just(2usize), 1 => Just(4usize)], any::<u8>())
        .prop_flat_map(move |(v, idw, pre)| {
            let cfg = ConnCfg { role: Role::Server, ver: CVer::of(v), idw };
            history_for(p, cfg, crate::checks::c05::hostile_op()).prop_map(move |h| {
                // the script starts with the first CONNECT from the peer; option setters before it are kept
                let first = h.ops.iter().position(|o| matches!(o, Op::PeerConnect(_))).unwrap_or(h.ops.len());
                let mut ops: Vec<Op> = h.ops[..first].iter().filter(|o| matches!(o, Op::SetOpt(_) | Op::Chunk(_))).cloned().collect();
                if pre % 3 == 0 {
                    // the very first CONNECT carries the right protocol name and level but is damaged behind them (reserved
                    // Connect Flags bit; a length field pointing past the end): it is refused, yet it is the first CONNECT,
                    // so whatever follows - on this transport or on the next one - must be handled as a server created
                    // with that version handles it
                    ops.push(Op::PeerRaw(damaged_connect(v, idw, (pre / 3) % 2)));
                    match (pre / 6) % 4 {
                        0 => ops.push(Op::PeerPingreq),
                        1 => ops.push(Op::PeerPublish { qos: 0, id: Sel::Arb(1), dup: false, topic: 0, alias: AliasMode::None, plen: 1 }),
                        2 => {
                            let other = if v == V::V5 { V::V311 } else { V::V5 };
                            ops.push(Op::PeerRaw(refcodec::encode(&connect_ap(other, &ConnectArgs { clean: true, keep_alive: 0, p: HsProps::default() }), idw)));
                        }
                        _ => {}
                    }
                    ops.push(Op::Closed);
                    if (pre / 24) % 2 == 1 {
                        // the next connection starts with a CONNECT of the other version
                        let other = if v == V::V5 { V::V311 } else { V::V5 };
                        ops.push(Op::PeerRaw(refcodec::encode(&connect_ap(other, &ConnectArgs { clean: true, keep_alive: 0, p: HsProps::default() }), idw)));
                        ops.push(Op::Closed);
                    }
                }
                ops.extend(h.ops[first..].iter().cloned());
                Script { v, idw, ops }
            })
        })
        .boxed()
}

pub fn test_script(s: &Script, st: &mut Stats) -> R {
    let fixed = ConnCfg { role: Role::Server, ver: CVer::of(s.v), idw: s.idw };
    let undet = ConnCfg { role: Role::Server, ver: CVer::Undetermined, idw: s.idw };
    let mut a = World::new(undet);
    let mut b = World::new(fixed);
    // both worlds resolve ops with the script's version
    a.t.v = Some(s.v);
    a.strict_close = false;
    b.strict_close = false;
    let mut after_connect = 0usize;
    let mut seen_connect = false;
    for op in &s.ops {
        a.exec(op);
        b.exec(op);
        let (sa, sb) = (a.steps.last().unwrap().clone(), b.steps.last().unwrap().clone());
        if sa.panic.is_some() || sb.panic.is_some() {
            st.aborted_by_panic += 1;
            return Ok(());
        }
        if matches!(op, Op::PeerConnect(_)) && !seen_connect {
            seen_connect = true;
            let pv = a.c.protocol_version();
            let want = if s.v == V::V5 { "V5_0" } else { "V3_1_1" };
            if sa.recvs().iter().any(|x| matches!(x, AP::Connect { .. })) && pv != want {
                return Err(fail("C17.autodetect_version", s.v.name(), format!("after the first CONNECT (level {}) get_protocol_version() is {pv}", s.v.level())));
            }
        } else if seen_connect {
            after_connect += 1;
        }
        if sa.calls != sb.calls || sa.events != sb.events {
            return Err(fail(
                "C17.autodetect_trace_ne_fixed",
                format!("{}/{}", s.v.name(), match &sa.call {
                    Call::Send(ap) => format!("send/{}", ap.kind_name()),
                    Call::Recv { ap: Some(ap), .. } => format!("recv/{}", ap.kind_name()),
                    Call::Recv { .. } => "recv/raw".into(),
                    Call::Timer(_) => "timer".into(),
                    Call::Closed => "notify_closed".into(),
                    _ => "other".into(),
                }),
                format!("an undetermined server that adopted {} diverges from a server created with that version:\n  undetermined: {}\n  fixed       : {}", s.v.name(), sa.brief(), sb.brief()),
            ));
        }
    }
    if seen_connect && after_connect >= 5 {
        st.nontrivial(&(s.v, s.idw, &s.ops));
        st.sample(|| json!({"version": s.v.name(), "idw": s.idw, "ops_after_connect": after_connect}));
    }
    Ok(())
}

/// other first packets and other protocol levels are rejected and the version stays undetermined
fn first_packet_rules(st: &mut Stats) -> R {
    for role in [Role::Server, Role::Any] {
        for ty in 0u8..=15 {
            if ty == 1 {
                continue;
            }
            for v in [V::V311, V::V5] {
                st.eval();
                let mut c = new_conn(ConnCfg { role, ver: CVer::Undetermined, idw: 2 });
                let bytes = match packet_of_type(ty, v, None) {
                    Some(ap) => refcodec::encode(&ap, 2),
                    None => vec![ty << 4, 0],
                };
                let calls = recv_all(c.as_mut(), &bytes).map_err(|e| fail("C17.autodetect_version", format!("first_packet/type{ty}/panic"), e))?;
                let ev = flat(&calls);
                if ev.iter().any(|e| matches!(e, NEvent::Recv(_))) || !ev.iter().any(|e| matches!(e, NEvent::Error(_))) || c.protocol_version() != "Undetermined" {
                    return Err(fail("C17.autodetect_version", format!("first_packet/type{ty}"), format!("an undetermined {role:?} connection received type {ty} first: {} version now {}", brief_list(&ev), c.protocol_version())));
                }
                st.nontrivial(&("first", format!("{role:?}"), ty, v));
            }
        }
        // every protocol level other than 4 and 5, in an otherwise valid CONNECT of either layout
        for body in [V::V311, V::V5] {
            for level in (0u8..=255).filter(|l| *l != 4 && *l != 5) {
                st.eval();
                let mut c = new_conn(ConnCfg { role, ver: CVer::Undetermined, idw: 2 });
                let mut bytes = refcodec::encode(&connect_ap(body, &ConnectArgs { clean: true, keep_alive: 0, p: HsProps::default() }), 2);
                bytes[8] = level; // fixed header(1) + remaining length(1) + "MQTT" string (6) -> protocol level
                let calls = recv_all(c.as_mut(), &bytes).map_err(|e| fail("C17.autodetect_version", format!("level{level}/panic"), e))?;
                let ev = flat(&calls);
                let acted = ev.iter().any(|e| matches!(e, NEvent::Recv(_)));
                if acted || !ev.iter().any(|e| matches!(e, NEvent::Error(_))) || c.protocol_version() != "Undetermined" {
                    return Err(fail("C17.autodetect_version", format!("level{level}"), format!("CONNECT ({} layout) with protocol level {level}: {} version now {}", body.name(), brief_list(&ev), c.protocol_version())));
                }
                // the connection is still undetermined: a well-formed first CONNECT of either version is adopted afterwards
                                for v in [V::V311, V::V5] {
                    let mut d = new_conn(ConnCfg { role, ver: CVer::Undetermined, idw: 2 });
                    let _ = recv_all(d.as_mut(), &bytes);
                    let _ = d.closed();
                    let good = refcodec::encode(&connect_ap(v, &ConnectArgs { clean: true, keep_alive: 0, p: HsProps::default() }), 2);
                    let ev2 = flat(&recv_all(d.as_mut(), &good).map_err(|e| fail("C17.autodetect_version", format!("level{level}/then_valid/panic"), e))?);
                    if !ev2.iter().any(|e| matches!(e, NEvent::Recv(AP::Connect { .. }))) {
                        return Err(fail("C17.autodetect_version", format!("level{level}/then_valid"), format!("after a rejected level {level} and a close, a valid {} CONNECT is not adopted: {}", v.name(), brief_list(&ev2))));
                    }
                }
                st.nontrivial(&("level", format!("{role:?}"), level, body.name()));
            }
        }
    }
    Ok(())
}

pub fn run(ctx: &Ctx) -> Report {
    let mut rep = Report::new(
        "the complete matrix role x constructor version x state {fresh, after close, connecting, connected} x 16 packet-type nibbles with a valid reference packet of that type (the connected state is prepared so that every acknowledgement kind is legitimate); \
         oracle = what the opposite role may send per version; plus auto-detection: histories run against Server(undetermined) and Server(fixed version) must give equal event traces, other first packets / protocol levels are rejected. \
         every matrix cell is non-trivial; a differential script is non-trivial with >= 5 ops after the CONNECT",
    );
    let cells = all_cells();
    let (st, v) = enumerate(ctx, "c17.matrix", &cells, test_cell);
    rep.absorb("matrix", st, v, true);
    let mut st = Stats::default();
    let r = first_packet_rules(&mut st);
    let v = r.err().map(|f| Violation { check: "c17.first".into(), fail: f, case: serde_json::Value::Null, seed: ctx.seed });
    rep.absorb("first_packet_rules", st, v, true);
    let n = ctx.tier.pick(200_000, 1_500_000);
    let (st, v) = search(ctx, "c17.script", n, script_strategy, test_script);
    rep.absorb("autodetect_differential", st, v, false);
    rep.assumptions.push("legitimate kinds are only asserted to be delivered in the prepared connected state".into());
    rep
}

pub fn replay(check: &str, case: &serde_json::Value) -> Option<R> {
    let mut st = Stats::default();
    match check {
        "c17.matrix" => {
            let c: RCell = serde_json::from_value(case.clone()).ok()?;
            Some(test_cell(&c, &mut st))
        }
        "c17.first" => Some(first_packet_rules(&mut st)),
        "c17.script" => {
            let s: Script = serde_json::from_value(case.clone()).ok()?;
            Some(test_script(&s, &mut st))
        }
        _ => None,
    }
}
