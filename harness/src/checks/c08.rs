//! C08 — packet identifiers: unique while in use, released exactly once, never leaked.

use crate::ap::*;
use crate::conn::*;
use crate::engine::*;
use crate::hist::*;
use crate::scn::*;
use crate::util::panic_site;
use serde_json::json;
use std::collections::BTreeSet;

pub struct IdModel {
    /// ids in use according to the announced history
    pub u: BTreeSet<u32>,
    pub max: u32,
    pub refusals_in_flight: u64,
    pub closes_in_flight: u64,
    pub releases: u64,
}

impl IdModel {
    pub fn new(idw: usize) -> IdModel {
        IdModel { u: BTreeSet::new(), max: if idw == 2 { 65535 } else { u32::MAX }, refusals_in_flight: 0, closes_in_flight: 0, releases: 0 }
    }

    fn free_runs(&self) -> Vec<(u64, u64)> {
        let mut out = Vec::new();
        let mut start = 1u64;
        for x in &self.u {
            let x = *x as u64;
            if x > start {
                out.push((start, x - 1));
            }
            start = x + 1;
        }
        if start <= self.max as u64 {
            out.push((start, self.max as u64));
        }
        out
    }

    fn take_released(&mut self, sig: &str, list: &[NEvent]) -> R {
        let mut seen: BTreeSet<u32> = BTreeSet::new();
        for e in list {
            if let NEvent::Released(id) = e {
                self.releases += 1;
                if !self.u.remove(id) {
                    let rule = if seen.contains(id) { "C08.double_release" } else { "C08.release_of_free_id" };
                    return Err(fail(rule, sig, format!("NotifyPacketIdReleased({id}) announced for an identifier that is not in use: {}", brief_list(list))));
                }
                seen.insert(*id);
            }
        }
        Ok(())
    }
}

fn initiating_id(ap: &AP) -> Option<u32> {
    match ap {
        AP::Publish { qos, pid: Some(id), .. } if *qos > 0 => Some(*id),
        AP::Subscribe { pid, .. } | AP::Unsubscribe { pid, .. } => Some(*pid),
        _ => None,
    }
}

impl Observer for IdModel {
    fn on_step(&mut self, w: &World, pre: &Tracker, pre_app: &App, st: &Step) -> R {
        let v = w.t.v.map(|v| v.name()).unwrap_or("undetermined");
        if let Some(p) = &st.panic {
            // totality of the id-management calls themselves is this property's business
            if matches!(st.call, Call::Acquire(_) | Call::Register(..) | Call::Release(_)) {
                return Err(fail("C08.not_total", format!("{}", panic_site(p)), format!("id-management call panicked: {p}")));
            }
            return Ok(());
        }
        // sub-calls made while resolving an id source
        for (c, evs) in &st.pre {
            self.id_call(c, evs)?;
        }
        let u_before = self.u.clone();
        match &st.call {
            Call::Acquire(_) | Call::Register(..) | Call::Release(_) => self.id_call(&st.call, &st.events)?,
            Call::Recv { .. } => {
                for (_, list) in &st.calls {
                    self.take_released(&format!("recv/{v}"), list)?;
                }
            }
            _ => self.take_released(&format!("{}/{v}", call_name(&st.call)), &st.events)?,
        }
        let released: BTreeSet<u32> = st.released().into_iter().collect();
        // every announced release has an owner: the call names the identifier (release, a refused or completing send,
        // erase), or an exchange the application knows to be in flight owns it. An identifier the application merely
        // holds is never released by the library on its own.
        let owned: BTreeSet<u32> = pre_app.all_out().into_iter().collect();
        for id in &released {
            let named = match &st.call {
                Call::Release(v) | Call::Erase(v) => v == id,
                Call::Send(ap) => ap.packet_id() == Some(*id),
                _ => false,
            };
            if !named && !owned.contains(id) && !st.new_session {
                let what = if pre_app.held.contains(id) { "held_by_application" } else { "no_exchange" };
                return Err(fail(
                    "C08.release_without_owner",
                    format!("{}/{what}/{v}", call_name(&st.call)),
                    format!("NotifyPacketIdReleased({id}) although no in-flight exchange owns the identifier and the call does not name it ({what}); exchanges in flight: {:?}, held: {:?}", owned, pre_app.held),
                ));
            }
        }
        // completion
        for ap in st.recvs() {
            let (set, what): (&BTreeSet<u32>, &str) = match ap {
                AP::Ack { kind: AckKind::Puback, .. } => (&pre_app.out_q1, "PUBACK"),
                AP::Ack { kind: AckKind::Pubcomp, .. } => (&pre_app.out_q2_comp, "PUBCOMP"),
                AP::Ack { kind: AckKind::Pubrec, rc: Some(rc), v: V::V5, .. } if *rc >= 0x80 => (&pre_app.out_q2_rec, "PUBREC(error)"),
                AP::Suback { .. } => (&pre_app.sub_pending, "SUBACK"),
                AP::Unsuback { .. } => (&pre_app.unsub_pending, "UNSUBACK"),
                _ => continue,
            };
            let id = ap.packet_id().unwrap();
            if set.contains(&id) && u_before.contains(&id) && !released.contains(&id) {
                return Err(fail("C08.leak_on_completion", format!("{what}/{v}"), format!("{what} for id {id} was delivered and completes its exchange, but the identifier was not released")));
            }
        }
        // refusal of an exchange-initiating send
        if let Call::Send(ap) = &st.call {
            if let Some(id) = initiating_id(ap) {
                let sent = st.sends().iter().any(|s| s.kind_name() == ap.kind_name() && s.packet_id() == Some(id));
                if st.has_error() && !sent && u_before.contains(&id) {
                    // the id belonged to the application (held) or to nobody else
                    let owned_elsewhere = pre_app.all_out().contains(&id);
                    if !owned_elsewhere {
                        if !pre_app.all_out().is_empty() {
                            self.refusals_in_flight += 1;
                        }
                        if !released.contains(&id) {
                            return Err(fail(
                                "C08.leak_on_refusal",
                                format!("{}/{}/{v}", ap.kind_name(), st.errors().first().unwrap_or(&"?")),
                                format!("send of {} was refused ({:?}) but identifier {id} stays in use without a release event", ap.brief(), st.errors()),
                            ));
                        }
                    }
                }
                // a send that was not carried out at all - no error, nothing handed to the transport, nothing kept in the store -
                // is a refusal in everything but name: no exchange owns the identifier afterwards, so it must not stay in use
                if !st.has_error() && !sent && st.panic.is_none() && u_before.contains(&id) && !pre_app.all_out().contains(&id) {
                    let kept = w.c.stored().iter().any(|s| s.packet_id() == Some(id));
                    let in_use_after = w.c.free_ids().iter().all(|(lo, hi)| !((*lo..=*hi).contains(&(id as u64))));
                    if !kept && in_use_after && !released.contains(&id) {
                        return Err(fail(
                            "C08.leak_on_refusal",
                            format!("{}/silently_dropped/{v}", ap.kind_name()),
                            format!("send of {} returned no error, requested no transmission and stored nothing, yet identifier {id} stays in use: no exchange exists that could ever release it", ap.brief()),
                        ));
                    }
                }
            }
        }
        // close
        if let Call::Closed = &st.call {
            let mut must: BTreeSet<u32> = pre_app.sub_pending.union(&pre_app.unsub_pending).cloned().collect();
            let mut phase = "subscribe";
            if !pre.persistent {
                for s in [&pre_app.out_q1, &pre_app.out_q2_rec, &pre_app.out_q2_rel, &pre_app.out_q2_comp] {
                    must.extend(s.iter().cloned());
                }
            }
            if !must.is_empty() {
                self.closes_in_flight += 1;
            }
            // a persistent session keeps its publish exchanges (and their identifiers) across the close
            if pre.persistent {
                for s in [&pre_app.out_q1, &pre_app.out_q2_rec, &pre_app.out_q2_rel, &pre_app.out_q2_comp] {
                    if let Some(id) = s.iter().find(|id| released.contains(id)) {
                        return Err(fail("C08.persistent_exchange_released_at_close", format!("{v}"), format!("notify_closed released identifier {id} although its exchange belongs to a persistent session and is still in flight")));
                    }
                }
            }
            for id in must {
                if u_before.contains(&id) && !released.contains(&id) {
                    if pre_app.out_q2_rel.contains(&id) {
                        phase = "between_pubrec_and_pubrel";
                    } else if pre_app.out_q1.contains(&id) || pre_app.out_q2_rec.contains(&id) || pre_app.out_q2_comp.contains(&id) {
                        phase = "publish";
                    }
                    return Err(fail(
                        "C08.leak_on_close",
                        format!("{phase}/{v}/{}", if pre.persistent { "persistent" } else { "non_persistent" }),
                        format!("notify_closed did not release identifier {id} of an in-flight exchange ({phase}; session kept: {})", pre.persistent),
                    ));
                }
            }
        }
        // wholesale reset at a new session
        let new_session_now = st.new_session;
        if new_session_now {
            self.u.clear();
        }
        // the in-use set must equal the announced history
        let lib = w.c.free_ids();
        if lib != self.free_runs() {
            let d23 = st.recvs().iter().any(|a| matches!(a, AP::Connack { sp: true, code: 0, .. }) && a.prop_u32(pid::SESSION_EXPIRY_INTERVAL) == Some(0));
            let what = if d23 { "recv/CONNACK(session_present=1,SessionExpiryInterval=0)".to_string() } else { call_name(&st.call) };
            return Err(fail(
                "C08.unannounced_change",
                format!("{what}/{v}"),
                format!("identifiers in use changed without announcement: library free intervals {:?}, announced history gives {:?}", lib, self.free_runs()),
            ));
        }
        Ok(())
    }
}

fn call_name(c: &Call) -> String {
    match c {
        Call::Send(ap) => format!("send/{}", ap.kind_name()),
        Call::Recv { .. } => "recv".into(),
        Call::Timer(k) => format!("timer/{k:?}"),
        Call::Closed => "notify_closed".into(),
        Call::Acquire(_) => "acquire".into(),
        Call::Register(..) => "register".into(),
        Call::Release(_) => "release".into(),
        Call::Erase(_) => "erase".into(),
        Call::SetOpt(_) => "setopt".into(),
        _ => "other".into(),
    }
}

impl IdModel {
    fn id_call(&mut self, c: &Call, evs: &[NEvent]) -> R {
        match c {
            Call::Acquire(Ok(id)) => {
                if *id == 0 || *id > self.max || !self.u.insert(*id) {
                    return Err(fail("C08.acquire_in_use", "acquire", format!("acquire_packet_id returned {id}, which is already in use (or out of range)")));
                }
            }
            Call::Acquire(Err(e)) => {
                if (self.u.len() as u64) < self.max as u64 {
                    return Err(fail("C08.exhaustion", "acquire", format!("acquire_packet_id failed ({e}) although only {} of {} identifiers are in use", self.u.len(), self.max)));
                }
            }
            Call::Register(v, r) => {
                let want = *v >= 1 && *v <= self.max && !self.u.contains(v);
                if r.is_ok() != want {
                    return Err(fail("C08.register_verdict", format!("register/{}", if *v == 0 { "zero" } else { "nonzero" }), format!("register_packet_id({v}) returned {r:?}; in use per history: {}", self.u.contains(v))));
                }
                if want {
                    self.u.insert(*v);
                }
            }
            Call::Release(v) => {
                let want = self.u.contains(v);
                let got = evs.iter().any(|e| matches!(e, NEvent::Released(x) if x == v));
                if want != got {
                    return Err(fail("C08.release_verdict", "release", format!("release_packet_id({v}): released event {got}, in use per history {want}")));
                }
                self.take_released("release", evs)?;
            }
            _ => {}
        }
        Ok(())
    }
}

pub fn profile() -> Profile {
    let mut p = Profile::general();
    p.ids = 8;
    p.sub = 6;
    p.publish = 12;
    p.peer_ack = 12;
    p.erase = 2;
    p.hostile = 0;
    p.rehandshake = 1;
    p.timers = 1;
    p
}

pub fn test(h: &History, st: &mut Stats) -> R {
    let mut m = IdModel::new(h.cfg.idw);
    let (_w, out, r) = run_history(h, &mut [&mut m]);
    count_outcome(&out, st);
    r?;
    st.count("release_events", m.releases);
    if m.refusals_in_flight + m.closes_in_flight > 0 {
        st.nontrivial(&(h.cfg, &h.ops));
        if m.refusals_in_flight > 0 {
            st.class("refusal_with_exchange_in_flight");
        }
        if m.closes_in_flight > 0 {
            st.class("close_with_exchange_in_flight");
        }
        st.sample(|| json!({"cfg": cfg_sig(&h.cfg), "ops": h.ops.len(), "refusals_in_flight": m.refusals_in_flight, "closes_in_flight": m.closes_in_flight, "release_events": m.releases}));
    }
    Ok(())
}

/// every identifier from 1 to the maximum can be in use simultaneously; exhaustion is an error; boundary ids for u32
fn fill(st: &mut Stats) -> R {
    st.eval();
    let mut c = new_conn(ConnCfg { role: Role::Client, ver: CVer::V311, idw: 2 });
    let mut seen = vec![false; 65536];
    for i in 0..65535u32 {
        match c.acquire() {
            Ok(Ok(id)) => {
                if id == 0 || id > 65535 || seen[id as usize] {
                    return Err(fail("C08.acquire_in_use", "fill", format!("acquire #{i} returned {id} twice or out of range")));
                }
                seen[id as usize] = true;
            }
            Ok(Err(e)) => return Err(fail("C08.exhaustion", "fill", format!("acquire #{i} failed with {e}: not every identifier 1..=65535 can be in use"))),
            Err(p) => return Err(fail("C08.not_total", "fill", p)),
        }
    }
    match c.acquire() {
        Ok(Err(_)) => {}
        other => return Err(fail("C08.exhaustion", "fill/overflow", format!("acquire with all identifiers in use returned {other:?}"))),
    }
    match c.register(7) {
        Ok(Err(_)) => {}
        other => return Err(fail("C08.register_verdict", "fill", format!("register(7) with all ids in use returned {other:?}"))),
    }
    for id in [1u32, 40000, 65535] {
        let e = c.release(id).map_err(|p| fail("C08.not_total", "fill/release", p))?;
        if e != vec![NEvent::Released(id)] {
            return Err(fail("C08.release_verdict", "fill", format!("release({id}) gave {}", brief_list(&e))));
        }
    }
    // exactly the three released identifiers can be acquired again (in whatever order the manager hands them out)
    let mut again: BTreeSet<u32> = BTreeSet::new();
    for _ in 0..3 {
        match c.acquire() {
            Ok(Ok(id)) if [1u32, 40000, 65535].contains(&id) && again.insert(id) => {}
            other => return Err(fail("C08.acquire_in_use", "fill/reacquire", format!("with only 1, 40000 and 65535 free, acquire returned {other:?} (already re-acquired: {again:?})"))),
        }
    }
    match c.acquire() {
        Ok(Err(_)) => {}
        other => return Err(fail("C08.exhaustion", "fill/overflow_again", format!("acquire with all identifiers in use again returned {other:?}"))),
    }
    st.nontrivial("fill_u16");
    st.eval();
    let mut c = new_conn(ConnCfg { role: Role::Server, ver: CVer::V5, idw: 4 });
    for (v, want) in [(0u32, false), (1, true), (u32::MAX, true), (u32::MAX, false), (65536, true)] {
        match c.register(v) {
            Ok(r) if r.is_ok() == want => {}
            other => return Err(fail("C08.register_verdict", "u32_bounds", format!("register({v}) -> {other:?}, expected ok={want}"))),
        }
    }
    for v in [0u32, 5, u32::MAX] {
        let e = c.release(v).map_err(|p| fail("C08.not_total", "u32_bounds/release", p))?;
        let want = v == u32::MAX;
        if e.iter().any(|x| matches!(x, NEvent::Released(_))) != want {
            return Err(fail("C08.release_verdict", "u32_bounds", format!("release({v}) gave {}", brief_list(&e))));
        }
    }
    st.nontrivial("bounds_u32");
    Ok(())
}

pub fn run(ctx: &Ctx) -> Report {
    let mut rep = Report::new(
        "random histories of acquire/register/release (ids 0, 1, interior, max), sends of id-carrying packets with acquired / registered / never-acquired ids, provoked refusals, peer acknowledgements, \
         closes (persistent or not) and reconnects, u16 and u32 ids, against a set model of the in-use identifiers fed only by announced events (checked against the verif-hooks in-use set after every op); \
         plus one deterministic fill of all 65535 u16 ids. non-trivial = a refusal or a close happened while an exchange id was in flight",
    );
    let n = ctx.tier.pick(400_000, 2_000_000);
    let (st, v) = search(ctx, "c08.history", n, || history(profile(), true, no_hostile()), test);
    rep.absorb("histories", st, v, false);
    let mut st = Stats::default();
    let r = fill(&mut st);
    let v = r.err().map(|f| Violation { check: "c08.fill".into(), fail: f, case: serde_json::Value::Null, seed: ctx.seed });
    rep.absorb("fill_all_ids", st, v, true);
    rep.assumptions.push("exchange ownership comes from an event-derived application view (scn::App); persistence from the CONNECT/CONNACK contents (DESIGN.md appendix D)".into());
    rep.assumptions.push("a refused PUBREL does not end its exchange and is not required to release".into());
    rep
}

pub fn replay(check: &str, case: &serde_json::Value) -> Option<R> {
    let mut st = Stats::default();
    match check {
        "c08.history" => {
            let h: History = serde_json::from_value(case.clone()).ok()?;
            Some(test(&h, &mut st))
        }
        "c08.fill" => Some(fill(&mut st)),
        _ => None,
    }
}
