//! C03 — wire format matches the MQTT specification (differential against the independent reference codec).

use crate::adapt::{self, Pid};
use crate::ap::*;
use crate::checks::c02::PacketCase;
use crate::engine::*;
use crate::ensure;
use crate::gen;
use crate::refcodec;
use crate::util::{catch, h64, hex_trunc};
use mqtt_protocol_core::mqtt::packet::{
    FixedHeader, GenericPacketTrait, PacketType, PropertyId, Qos, RetainHandling, SubOpts,
};
use mqtt_protocol_core::mqtt::result_code::*;
use proptest::prelude::*;
use serde_json::json;

pub fn case_strategy() -> BoxedStrategy<PacketCase> {
    let o = gen::GenOpts { big: true, beyond_spec: false };
    (gen::version(), prop_oneof![3 => Just(2usize), 1 => Just(4usize)])
        .prop_flat_map(move |(v, idw)| gen::any_packet(v, idw, o).prop_map(move |ap| PacketCase { idw, ap }))
        .boxed()
}

fn first_diff(a: &[u8], b: &[u8]) -> usize {
    a.iter().zip(b.iter()).position(|(x, y)| x != y).unwrap_or(a.len().min(b.len()))
}

pub fn check_one<P: Pid>(c: &PacketCase, st: &mut Stats) -> R {
    let v = c.ap.version();
    let kind = c.ap.kind_name();
    let sig = format!("{}/{}", v.name(), kind);
    let reference = refcodec::encode(&c.ap, P::W);
    // (a) library bytes == reference bytes
    let built = match catch(|| adapt::to_lib::<P>(&c.ap)) {
        Err(pm) => return Err(Fail::new("C03.bytes_ne_reference", format!("{sig}/builder_panic"), pm)),
        Ok(Err(_)) => {
            // the builder refuses field values the specification allows: direction (a) has nothing to compare, but the
            // spec-conformant encoding must still be parsed (direction (b) below)
            st.class("rejected_by_builder");
            None
        }
        Ok(Ok(p)) => Some(p),
    };
    st.class(&sig);
    let bytes = built.as_ref().map(|b| b.to_continuous_buffer()).unwrap_or_else(|| reference.clone());
    if bytes != reference {
        let d = first_diff(&bytes, &reference);
        return Err(Fail::new(
            "C03.bytes_ne_reference",
            &sig,
            format!(
                "packet {} : library {} bytes, reference {} bytes, first difference at offset {}: lib …{} ref …{}",
                c.ap.brief(),
                bytes.len(),
                reference.len(),
                d,
                hex_trunc(&bytes[d.saturating_sub(4).min(bytes.len())..], 16),
                hex_trunc(&reference[d.saturating_sub(4).min(reference.len())..], 16)
            ),
        ));
    }
    // (b) a spec-conformant encoding parses back into a packet whose accessors return the same values
    let (frames, rest) = refcodec::frame(&reference);
    assert!(rest == 0 && frames.len() == 1, "reference codec self-consistency");
    let refcodec::Frame::Complete { first, body, .. } = &frames[0] else { panic!("reference frame") };
    match catch(|| adapt::lib_parse::<P>(v, *first, body)) {
        Err(pm) => return Err(Fail::new("C03.parse_reference_failed", format!("{sig}/panic"), pm)),
        Ok(Err(e)) => {
            return Err(Fail::new(
                "C03.parse_reference_failed",
                &sig,
                format!("spec-conformant encoding of {} rejected: {e}: {}", c.ap.brief(), hex_trunc(&reference, 64)),
            ))
        }
        Ok(Ok((q, _))) => {
            let back = match catch(|| adapt::from_lib(&q)) {
                Ok(b) => b,
                Err(pm) => return Err(Fail::new("C03.accessor_ne_field", format!("{sig}/panic"), pm)),
            };
            ensure!(
                back == c.ap,
                "C03.accessor_ne_field",
                &sig,
                "accessors of the parsed packet differ from the encoded field values:\n  sent  {:?}\n  read  {:?}",
                c.ap,
                back
            );
            // the parsed packet is a packet like any other: what it serialises to (e.g. when a broker forwards or stores it)
            // must again be the encoding the specification prescribes for these field values, fixed-header flags included
            let again = catch(|| q.to_continuous_buffer()).map_err(|pm| Fail::new("C03.bytes_ne_reference", format!("{sig}/parsed/panic"), pm))?;
            if again != reference {
                let d = first_diff(&again, &reference);
                return Err(Fail::new(
                    "C03.bytes_ne_reference",
                    format!("{sig}/parsed"),
                    format!(
                        "packet {} parsed from its reference encoding serialises to different bytes: first difference at offset {}: lib …{} ref …{}",
                        c.ap.brief(),
                        d,
                        hex_trunc(&again[d.saturating_sub(4).min(again.len())..], 16),
                        hex_trunc(&reference[d.saturating_sub(4).min(reference.len())..], 16)
                    ),
                ));
            }
            ensure!(q.size() == reference.len(), "C03.bytes_ne_reference", format!("{sig}/parsed/size"), "parsed packet reports size() {} for a {}-byte encoding", q.size(), reference.len());
        }
    }
    // packets the library produces by rewriting a PUBLISH (alias added / removed, DUP set) are "bytes produced for a
    // packet" as well: each must equal the reference encoding of its own field values
    if let Some(mqtt_protocol_core::mqtt::packet::GenericPacket::V5_0Publish(pb)) = built.as_ref() {
        let mut variants: Vec<(&'static str, mqtt_protocol_core::mqtt::packet::GenericPacket<P>)> = vec![
            ("set_dup", pb.clone().set_dup(!pb.dup()).into()),
            ("add_topic_alias", pb.clone().add_topic_alias(7).into()),
            ("remove_topic_add_topic_alias", pb.clone().remove_topic_add_topic_alias(65535).into()),
        ];
        if !pb.topic_name().is_empty() {
            variants.push(("remove_topic_alias", pb.clone().remove_topic_alias().into()));
        } else if let Ok(q) = pb.clone().remove_topic_alias_add_topic("restored/topic".to_string()) {
            variants.push(("remove_topic_alias_add_topic", q.into()));
        }
        for (name, q) in variants {
            let qb = q.to_continuous_buffer();
            let qa = catch(|| adapt::from_lib(&q)).map_err(|pm| Fail::new("C03.accessor_ne_field", format!("{sig}/rewrite/{name}/panic"), pm))?;
            let qr = refcodec::encode(&qa, P::W);
            if qb != qr {
                let d = first_diff(&qb, &qr);
                return Err(Fail::new("C03.bytes_ne_reference", format!("{sig}/rewrite/{name}"), format!("PUBLISH rewritten by {name}: library {} bytes, reference encoding of its field values {} bytes, first difference at offset {d}: lib {} ref {}", qb.len(), qr.len(), hex_trunc(&qb, 40), hex_trunc(&qr, 40))));
            }
        }
        st.class("publish_rewrites_compared");
    }
    if gen::packet_nontrivial(&c.ap) {
        st.nontrivial_hash(h64(&reference));
        st.class("nontrivial");
        st.sample(|| json!({"idw": c.idw, "packet": c.ap.brief(), "reference_bytes": hex_trunc(&reference, 40)}));
    }
    Ok(())
}

pub fn test(c: &PacketCase, st: &mut Stats) -> R {
    match c.idw {
        2 => check_one::<u16>(c, st),
        4 => check_one::<u32>(c, st),
        _ => Ok(()),
    }
}

/// (c) numeric tables, enumerated completely against the specification's numbers.
pub fn numeric_tables(st: &mut Stats) -> R {
    let mut rows: Vec<(&'static str, u32, u32)> = Vec::new();
    macro_rules! row {
        ($name:expr, $lib:expr, $spec:expr) => {
            rows.push(($name, $lib as u32, $spec as u32));
        };
    }
    // property identifiers, MQTT 5.0 table 2-4
    row!("PropertyId::PayloadFormatIndicator", PropertyId::PayloadFormatIndicator.as_u8(), 0x01);
    row!("PropertyId::MessageExpiryInterval", PropertyId::MessageExpiryInterval.as_u8(), 0x02);
    row!("PropertyId::ContentType", PropertyId::ContentType.as_u8(), 0x03);
    row!("PropertyId::ResponseTopic", PropertyId::ResponseTopic.as_u8(), 0x08);
    row!("PropertyId::CorrelationData", PropertyId::CorrelationData.as_u8(), 0x09);
    row!("PropertyId::SubscriptionIdentifier", PropertyId::SubscriptionIdentifier.as_u8(), 0x0B);
    row!("PropertyId::SessionExpiryInterval", PropertyId::SessionExpiryInterval.as_u8(), 0x11);
    row!("PropertyId::AssignedClientIdentifier", PropertyId::AssignedClientIdentifier.as_u8(), 0x12);
    row!("PropertyId::ServerKeepAlive", PropertyId::ServerKeepAlive.as_u8(), 0x13);
    row!("PropertyId::AuthenticationMethod", PropertyId::AuthenticationMethod.as_u8(), 0x15);
    row!("PropertyId::AuthenticationData", PropertyId::AuthenticationData.as_u8(), 0x16);
    row!("PropertyId::RequestProblemInformation", PropertyId::RequestProblemInformation.as_u8(), 0x17);
    row!("PropertyId::WillDelayInterval", PropertyId::WillDelayInterval.as_u8(), 0x18);
    row!("PropertyId::RequestResponseInformation", PropertyId::RequestResponseInformation.as_u8(), 0x19);
    row!("PropertyId::ResponseInformation", PropertyId::ResponseInformation.as_u8(), 0x1A);
    row!("PropertyId::ServerReference", PropertyId::ServerReference.as_u8(), 0x1C);
    row!("PropertyId::ReasonString", PropertyId::ReasonString.as_u8(), 0x1F);
    row!("PropertyId::ReceiveMaximum", PropertyId::ReceiveMaximum.as_u8(), 0x21);
    row!("PropertyId::TopicAliasMaximum", PropertyId::TopicAliasMaximum.as_u8(), 0x22);
    row!("PropertyId::TopicAlias", PropertyId::TopicAlias.as_u8(), 0x23);
    row!("PropertyId::MaximumQos", PropertyId::MaximumQos.as_u8(), 0x24);
    row!("PropertyId::RetainAvailable", PropertyId::RetainAvailable.as_u8(), 0x25);
    row!("PropertyId::UserProperty", PropertyId::UserProperty.as_u8(), 0x26);
    row!("PropertyId::MaximumPacketSize", PropertyId::MaximumPacketSize.as_u8(), 0x27);
    row!("PropertyId::WildcardSubscriptionAvailable", PropertyId::WildcardSubscriptionAvailable.as_u8(), 0x28);
    row!("PropertyId::SubscriptionIdentifierAvailable", PropertyId::SubscriptionIdentifierAvailable.as_u8(), 0x29);
    row!("PropertyId::SharedSubscriptionAvailable", PropertyId::SharedSubscriptionAvailable.as_u8(), 0x2A);
    // control packet types and fixed-header first bytes, table 2-1 / 2-2
    row!("PacketType::Connect", PacketType::Connect.as_u8(), 1);
    row!("PacketType::Connack", PacketType::Connack.as_u8(), 2);
    row!("PacketType::Publish", PacketType::Publish.as_u8(), 3);
    row!("PacketType::Puback", PacketType::Puback.as_u8(), 4);
    row!("PacketType::Pubrec", PacketType::Pubrec.as_u8(), 5);
    row!("PacketType::Pubrel", PacketType::Pubrel.as_u8(), 6);
    row!("PacketType::Pubcomp", PacketType::Pubcomp.as_u8(), 7);
    row!("PacketType::Subscribe", PacketType::Subscribe.as_u8(), 8);
    row!("PacketType::Suback", PacketType::Suback.as_u8(), 9);
    row!("PacketType::Unsubscribe", PacketType::Unsubscribe.as_u8(), 10);
    row!("PacketType::Unsuback", PacketType::Unsuback.as_u8(), 11);
    row!("PacketType::Pingreq", PacketType::Pingreq.as_u8(), 12);
    row!("PacketType::Pingresp", PacketType::Pingresp.as_u8(), 13);
    row!("PacketType::Disconnect", PacketType::Disconnect.as_u8(), 14);
    row!("PacketType::Auth", PacketType::Auth.as_u8(), 15);
    row!("FixedHeader::Connect", FixedHeader::Connect.as_u8(), 0x10);
    row!("FixedHeader::Connack", FixedHeader::Connack.as_u8(), 0x20);
    row!("FixedHeader::Publish", FixedHeader::Publish.as_u8(), 0x30);
    row!("FixedHeader::Puback", FixedHeader::Puback.as_u8(), 0x40);
    row!("FixedHeader::Pubrec", FixedHeader::Pubrec.as_u8(), 0x50);
    row!("FixedHeader::Pubrel", FixedHeader::Pubrel.as_u8(), 0x62);
    row!("FixedHeader::Pubcomp", FixedHeader::Pubcomp.as_u8(), 0x70);
    row!("FixedHeader::Subscribe", FixedHeader::Subscribe.as_u8(), 0x82);
    row!("FixedHeader::Suback", FixedHeader::Suback.as_u8(), 0x90);
    row!("FixedHeader::Unsubscribe", FixedHeader::Unsubscribe.as_u8(), 0xA2);
    row!("FixedHeader::Unsuback", FixedHeader::Unsuback.as_u8(), 0xB0);
    row!("FixedHeader::Pingreq", FixedHeader::Pingreq.as_u8(), 0xC0);
    row!("FixedHeader::Pingresp", FixedHeader::Pingresp.as_u8(), 0xD0);
    row!("FixedHeader::Disconnect", FixedHeader::Disconnect.as_u8(), 0xE0);
    row!("FixedHeader::Auth", FixedHeader::Auth.as_u8(), 0xF0);
    for (pt, fh) in [
        (PacketType::Connect, 0x10u8),
        (PacketType::Connack, 0x20),
        (PacketType::Publish, 0x30),
        (PacketType::Puback, 0x40),
        (PacketType::Pubrec, 0x50),
        (PacketType::Pubrel, 0x62),
        (PacketType::Pubcomp, 0x70),
        (PacketType::Subscribe, 0x82),
        (PacketType::Suback, 0x90),
        (PacketType::Unsubscribe, 0xA2),
        (PacketType::Unsuback, 0xB0),
        (PacketType::Pingreq, 0xC0),
        (PacketType::Pingresp, 0xD0),
        (PacketType::Disconnect, 0xE0),
        (PacketType::Auth, 0xF0),
    ] {
        row!("PacketType::to_fixed_header", pt.to_fixed_header().as_u8(), fh);
    }
    row!("Qos::AtMostOnce", Qos::AtMostOnce, 0);
    row!("Qos::AtLeastOnce", Qos::AtLeastOnce, 1);
    row!("Qos::ExactlyOnce", Qos::ExactlyOnce, 2);
    row!("RetainHandling::SendRetained", RetainHandling::SendRetained, 0);
    row!("RetainHandling::SendRetainedIfNotExists", RetainHandling::SendRetainedIfNotExists, 1);
    row!("RetainHandling::DoNotSendRetained", RetainHandling::DoNotSendRetained, 2);
    // v3.1.1 CONNACK return codes (table 3.1) and SUBACK return codes
    row!("ConnectReturnCode::Accepted", ConnectReturnCode::Accepted, 0);
    row!("ConnectReturnCode::UnacceptableProtocolVersion", ConnectReturnCode::UnacceptableProtocolVersion, 1);
    row!("ConnectReturnCode::IdentifierRejected", ConnectReturnCode::IdentifierRejected, 2);
    row!("ConnectReturnCode::ServerUnavailable", ConnectReturnCode::ServerUnavailable, 3);
    row!("ConnectReturnCode::BadUserNameOrPassword", ConnectReturnCode::BadUserNameOrPassword, 4);
    row!("ConnectReturnCode::NotAuthorized", ConnectReturnCode::NotAuthorized, 5);
    row!("SubackReturnCode::SuccessMaximumQos0", SubackReturnCode::SuccessMaximumQos0, 0);
    row!("SubackReturnCode::SuccessMaximumQos1", SubackReturnCode::SuccessMaximumQos1, 1);
    row!("SubackReturnCode::SuccessMaximumQos2", SubackReturnCode::SuccessMaximumQos2, 2);
    row!("SubackReturnCode::Failure", SubackReturnCode::Failure, 0x80);
    // v5.0 reason codes (table 2-6 and the per-packet tables)
    use ConnectReasonCode as C;
    row!("ConnectReasonCode::Success", C::Success, 0x00);
    row!("ConnectReasonCode::UnspecifiedError", C::UnspecifiedError, 0x80);
    row!("ConnectReasonCode::MalformedPacket", C::MalformedPacket, 0x81);
    row!("ConnectReasonCode::ProtocolError", C::ProtocolError, 0x82);
    row!("ConnectReasonCode::ImplementationSpecificError", C::ImplementationSpecificError, 0x83);
    row!("ConnectReasonCode::UnsupportedProtocolVersion", C::UnsupportedProtocolVersion, 0x84);
    row!("ConnectReasonCode::ClientIdentifierNotValid", C::ClientIdentifierNotValid, 0x85);
    row!("ConnectReasonCode::BadUserNameOrPassword", C::BadUserNameOrPassword, 0x86);
    row!("ConnectReasonCode::NotAuthorized", C::NotAuthorized, 0x87);
    row!("ConnectReasonCode::ServerUnavailable", C::ServerUnavailable, 0x88);
    row!("ConnectReasonCode::ServerBusy", C::ServerBusy, 0x89);
    row!("ConnectReasonCode::Banned", C::Banned, 0x8A);
    row!("ConnectReasonCode::BadAuthenticationMethod", C::BadAuthenticationMethod, 0x8C);
    row!("ConnectReasonCode::TopicNameInvalid", C::TopicNameInvalid, 0x90);
    row!("ConnectReasonCode::PacketTooLarge", C::PacketTooLarge, 0x95);
    row!("ConnectReasonCode::QuotaExceeded", C::QuotaExceeded, 0x97);
    row!("ConnectReasonCode::PayloadFormatInvalid", C::PayloadFormatInvalid, 0x99);
    row!("ConnectReasonCode::RetainNotSupported", C::RetainNotSupported, 0x9A);
    row!("ConnectReasonCode::QosNotSupported", C::QosNotSupported, 0x9B);
    row!("ConnectReasonCode::UseAnotherServer", C::UseAnotherServer, 0x9C);
    row!("ConnectReasonCode::ServerMoved", C::ServerMoved, 0x9D);
    row!("ConnectReasonCode::ConnectionRateExceeded", C::ConnectionRateExceeded, 0x9F);
    use DisconnectReasonCode as D;
    row!("DisconnectReasonCode::NormalDisconnection", D::NormalDisconnection, 0x00);
    row!("DisconnectReasonCode::DisconnectWithWillMessage", D::DisconnectWithWillMessage, 0x04);
    row!("DisconnectReasonCode::UnspecifiedError", D::UnspecifiedError, 0x80);
    row!("DisconnectReasonCode::MalformedPacket", D::MalformedPacket, 0x81);
    row!("DisconnectReasonCode::ProtocolError", D::ProtocolError, 0x82);
    row!("DisconnectReasonCode::ImplementationSpecificError", D::ImplementationSpecificError, 0x83);
    row!("DisconnectReasonCode::NotAuthorized", D::NotAuthorized, 0x87);
    row!("DisconnectReasonCode::ServerBusy", D::ServerBusy, 0x89);
    row!("DisconnectReasonCode::ServerShuttingDown", D::ServerShuttingDown, 0x8B);
    row!("DisconnectReasonCode::KeepAliveTimeout", D::KeepAliveTimeout, 0x8D);
    row!("DisconnectReasonCode::SessionTakenOver", D::SessionTakenOver, 0x8E);
    row!("DisconnectReasonCode::TopicFilterInvalid", D::TopicFilterInvalid, 0x8F);
    row!("DisconnectReasonCode::TopicNameInvalid", D::TopicNameInvalid, 0x90);
    row!("DisconnectReasonCode::ReceiveMaximumExceeded", D::ReceiveMaximumExceeded, 0x93);
    row!("DisconnectReasonCode::TopicAliasInvalid", D::TopicAliasInvalid, 0x94);
    row!("DisconnectReasonCode::PacketTooLarge", D::PacketTooLarge, 0x95);
    row!("DisconnectReasonCode::MessageRateTooHigh", D::MessageRateTooHigh, 0x96);
    row!("DisconnectReasonCode::QuotaExceeded", D::QuotaExceeded, 0x97);
    row!("DisconnectReasonCode::AdministrativeAction", D::AdministrativeAction, 0x98);
    row!("DisconnectReasonCode::PayloadFormatInvalid", D::PayloadFormatInvalid, 0x99);
    row!("DisconnectReasonCode::RetainNotSupported", D::RetainNotSupported, 0x9A);
    row!("DisconnectReasonCode::QosNotSupported", D::QosNotSupported, 0x9B);
    row!("DisconnectReasonCode::UseAnotherServer", D::UseAnotherServer, 0x9C);
    row!("DisconnectReasonCode::ServerMoved", D::ServerMoved, 0x9D);
    row!("DisconnectReasonCode::SharedSubscriptionsNotSupported", D::SharedSubscriptionsNotSupported, 0x9E);
    row!("DisconnectReasonCode::ConnectionRateExceeded", D::ConnectionRateExceeded, 0x9F);
    row!("DisconnectReasonCode::MaximumConnectTime", D::MaximumConnectTime, 0xA0);
    row!("DisconnectReasonCode::SubscriptionIdentifiersNotSupported", D::SubscriptionIdentifiersNotSupported, 0xA1);
    row!("DisconnectReasonCode::WildcardSubscriptionsNotSupported", D::WildcardSubscriptionsNotSupported, 0xA2);
    use SubackReasonCode as S;
    row!("SubackReasonCode::GrantedQos0", S::GrantedQos0, 0x00);
    row!("SubackReasonCode::GrantedQos1", S::GrantedQos1, 0x01);
    row!("SubackReasonCode::GrantedQos2", S::GrantedQos2, 0x02);
    row!("SubackReasonCode::UnspecifiedError", S::UnspecifiedError, 0x80);
    row!("SubackReasonCode::ImplementationSpecificError", S::ImplementationSpecificError, 0x83);
    row!("SubackReasonCode::NotAuthorized", S::NotAuthorized, 0x87);
    row!("SubackReasonCode::TopicFilterInvalid", S::TopicFilterInvalid, 0x8F);
    row!("SubackReasonCode::PacketIdentifierInUse", S::PacketIdentifierInUse, 0x91);
    row!("SubackReasonCode::QuotaExceeded", S::QuotaExceeded, 0x97);
    row!("SubackReasonCode::SharedSubscriptionsNotSupported", S::SharedSubscriptionsNotSupported, 0x9E);
    row!("SubackReasonCode::SubscriptionIdentifiersNotSupported", S::SubscriptionIdentifiersNotSupported, 0xA1);
    row!("SubackReasonCode::WildcardSubscriptionsNotSupported", S::WildcardSubscriptionsNotSupported, 0xA2);
    use UnsubackReasonCode as U;
    row!("UnsubackReasonCode::Success", U::Success, 0x00);
    row!("UnsubackReasonCode::NoSubscriptionExisted", U::NoSubscriptionExisted, 0x11);
    row!("UnsubackReasonCode::UnspecifiedError", U::UnspecifiedError, 0x80);
    row!("UnsubackReasonCode::ImplementationSpecificError", U::ImplementationSpecificError, 0x83);
    row!("UnsubackReasonCode::NotAuthorized", U::NotAuthorized, 0x87);
    row!("UnsubackReasonCode::TopicFilterInvalid", U::TopicFilterInvalid, 0x8F);
    row!("UnsubackReasonCode::PacketIdentifierInUse", U::PacketIdentifierInUse, 0x91);
    use PubackReasonCode as PA;
    row!("PubackReasonCode::Success", PA::Success, 0x00);
    row!("PubackReasonCode::NoMatchingSubscribers", PA::NoMatchingSubscribers, 0x10);
    row!("PubackReasonCode::UnspecifiedError", PA::UnspecifiedError, 0x80);
    row!("PubackReasonCode::ImplementationSpecificError", PA::ImplementationSpecificError, 0x83);
    row!("PubackReasonCode::NotAuthorized", PA::NotAuthorized, 0x87);
    row!("PubackReasonCode::TopicNameInvalid", PA::TopicNameInvalid, 0x90);
    row!("PubackReasonCode::PacketIdentifierInUse", PA::PacketIdentifierInUse, 0x91);
    row!("PubackReasonCode::QuotaExceeded", PA::QuotaExceeded, 0x97);
    row!("PubackReasonCode::PayloadFormatInvalid", PA::PayloadFormatInvalid, 0x99);
    use PubrecReasonCode as PR;
    row!("PubrecReasonCode::Success", PR::Success, 0x00);
    row!("PubrecReasonCode::NoMatchingSubscribers", PR::NoMatchingSubscribers, 0x10);
    row!("PubrecReasonCode::UnspecifiedError", PR::UnspecifiedError, 0x80);
    row!("PubrecReasonCode::ImplementationSpecificError", PR::ImplementationSpecificError, 0x83);
    row!("PubrecReasonCode::NotAuthorized", PR::NotAuthorized, 0x87);
    row!("PubrecReasonCode::TopicNameInvalid", PR::TopicNameInvalid, 0x90);
    row!("PubrecReasonCode::PacketIdentifierInUse", PR::PacketIdentifierInUse, 0x91);
    row!("PubrecReasonCode::QuotaExceeded", PR::QuotaExceeded, 0x97);
    row!("PubrecReasonCode::PayloadFormatInvalid", PR::PayloadFormatInvalid, 0x99);
    row!("PubrelReasonCode::Success", PubrelReasonCode::Success, 0x00);
    row!("PubrelReasonCode::PacketIdentifierNotFound", PubrelReasonCode::PacketIdentifierNotFound, 0x92);
    row!("PubcompReasonCode::Success", PubcompReasonCode::Success, 0x00);
    row!("PubcompReasonCode::PacketIdentifierNotFound", PubcompReasonCode::PacketIdentifierNotFound, 0x92);
    row!("AuthReasonCode::Success", AuthReasonCode::Success, 0x00);
    row!("AuthReasonCode::ContinueAuthentication", AuthReasonCode::ContinueAuthentication, 0x18);
    row!("AuthReasonCode::ReAuthenticate", AuthReasonCode::ReAuthenticate, 0x19);
    for (name, lib, spec) in &rows {
        st.eval();
        st.nontrivial(name);
        ensure!(lib == spec, "C03.numeric_table", *name, "{} is {:#x}, the specification says {:#x}", name, lib, spec);
    }
    // try_from must accept exactly the listed values for wire-decoded enums
    fn accepted<T: TryFrom<u8>>() -> Vec<u8> {
        (0u8..=255).filter(|b| T::try_from(*b).is_ok()).collect()
    }
    let sets: Vec<(&str, Vec<u8>, Vec<u8>)> = vec![
        ("PropertyId", accepted::<PropertyId>(), PROP_TABLE.iter().map(|s| s.id).collect()),
        ("ConnectReturnCode", accepted::<ConnectReturnCode>(), gen::CONNACK_RC_V311.to_vec()),
        ("ConnectReasonCode", accepted::<ConnectReasonCode>(), gen::CONNACK_RC_V5.to_vec()),
        ("PubackReasonCode", accepted::<PubackReasonCode>(), gen::PUBACK_RC.to_vec()),
        ("PubrecReasonCode", accepted::<PubrecReasonCode>(), gen::PUBACK_RC.to_vec()),
        ("PubrelReasonCode", accepted::<PubrelReasonCode>(), gen::PUBREL_RC.to_vec()),
        ("PubcompReasonCode", accepted::<PubcompReasonCode>(), gen::PUBREL_RC.to_vec()),
        ("SubackReturnCode", accepted::<SubackReturnCode>(), gen::SUBACK_RC_V311.to_vec()),
        ("SubackReasonCode", accepted::<SubackReasonCode>(), gen::SUBACK_RC_V5.to_vec()),
        ("UnsubackReasonCode", accepted::<UnsubackReasonCode>(), gen::UNSUBACK_RC.to_vec()),
        ("DisconnectReasonCode", accepted::<DisconnectReasonCode>(), gen::DISCONNECT_RC.to_vec()),
        ("AuthReasonCode", accepted::<AuthReasonCode>(), gen::AUTH_RC.to_vec()),
        ("PacketType", accepted::<PacketType>(), (1u8..=15).collect()),
    ];
    for (name, lib, spec) in sets {
        st.eval();
        st.nontrivial(&(name, "set"));
        ensure!(lib == spec, "C03.numeric_table", name, "{} accepts byte values {:x?}, the specification lists {:x?}", name, lib, spec);
    }
    // subscription options byte layout (§3.8.3.1): accessor values for every valid byte
    for b in 0u8..=0x3f {
        if let Ok(o) = SubOpts::from_u8(b) {
            st.eval();
            st.nontrivial(&("subopts", b));
            let ok = o.qos() as u8 == (b & 3) && o.nl() == (b & 4 != 0) && o.rap() == (b & 8 != 0) && o.rh() as u8 == ((b >> 4) & 3);
            ensure!(ok, "C03.accessor_ne_field", "SubOpts", "SubOpts byte {:#04x}: qos={:?} nl={} rap={} rh={:?}", b, o.qos(), o.nl(), o.rap(), o.rh());
        }
    }
    Ok(())
}

pub fn run(ctx: &Ctx) -> Report {
    let mut rep = Report::new(
        "random abstract packets (spec-defined subset of the C02 domain) encoded by the library and by an independent \
         reference encoder, compared byte for byte, and reference bytes parsed by the library and read back through accessors; \
         plus the complete numeric tables; non-trivial = optional field/property/boundary length; distinct by encoded bytes",
    );
    let n = ctx.tier.pick(400_000, 3_000_000);
    let (st, v) = search(ctx, "c03.differential", n, case_strategy, test);
    rep.absorb("differential", st, v, false);
    let mut st = Stats::default();
    let r = numeric_tables(&mut st);
    let v = r.err().map(|f| Violation { check: "c03.tables".into(), fail: f, case: serde_json::Value::Null, seed: ctx.seed });
    rep.absorb("numeric_tables", st, v, true);
    rep.assumptions.push("the reference codec (harness/src/refcodec.rs) transcribes the OASIS text correctly; guarded by golden vectors (cargo test) and by agreement with the unchanged tree".into());
    rep
}

pub fn replay(check: &str, case: &serde_json::Value) -> Option<R> {
    match check {
        "c03.differential" => {
            let c: PacketCase = serde_json::from_value(case.clone()).ok()?;
            let mut st = Stats::default();
            Some(test(&c, &mut st))
        }
        "c03.tables" => {
            let mut st = Stats::default();
            Some(numeric_tables(&mut st))
        }
        _ => None,
    }
}
