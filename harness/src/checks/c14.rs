//! C14 — Maximum Packet Size is honoured in both directions.

use crate::ap::*;
use crate::conn::*;
use crate::engine::*;
use crate::hist::*;
use crate::refcodec;
use crate::scn::*;
use serde_json::json;

pub struct SizeMonitor {
    last_stored: Vec<AP>,
    pub near_limit: u64,
    pub sends_checked: u64,
    pub oversize_in: u64,
    pub paths: std::collections::BTreeSet<&'static str>,
}

impl SizeMonitor {
    pub fn new() -> SizeMonitor {
        SizeMonitor { last_stored: vec![], near_limit: 0, sends_checked: 0, oversize_in: 0, paths: Default::default() }
    }
}

fn near(sz: usize, lim: u32) -> bool {
    let l = lim as i64;
    let s = sz as i64;
    (s - l).abs() <= 3
}

impl Observer for SizeMonitor {
    fn on_step(&mut self, w: &World, pre: &Tracker, _pa: &App, st: &Step) -> R {
        check_wire("C14", st, w.t.cfg.idw)?;
        if st.panic.is_some() {
            return Ok(());
        }
        let t = &w.t;
        let idw = t.cfg.idw;
        let stored_now = w.c.stored();
        let res = (|| -> R {
            if t.v != Some(V::V5) {
                return Ok(());
            }
            // limit in force for what we send: the one captured from the peer's CONNECT/CONNACK (post state covers the
            // resend that happens inside the CONNACK call)
            let lim = t.mps_send.or(pre.mps_send);
            let path: &'static str = match &st.call {
                Call::Send(_) => "direct",
                Call::Recv { .. } => {
                    if crate::checks::c06::is_resend_step(pre, st) {
                        "stored_resend"
                    } else {
                        "automatic_response"
                    }
                }
                Call::Timer(_) => "timer",
                _ => "other",
            };
            if let Some(l) = lim {
                for e in &st.events {
                    if let NEvent::Send { ap, size, bytes, .. } = e {
                        // CONNECT is sent before any limit is known
                        if matches!(ap, AP::Connect { .. }) {
                            continue;
                        }
                        self.sends_checked += 1;
                        let path = if path == "direct" && matches!(st.call, Call::Send(AP::Connack { .. })) && !matches!(ap, AP::Connack { .. }) { "stored_resend" } else { path };
                        let rewritten = matches!((&st.call, ap), (Call::Send(AP::Publish { props: p0, .. }), AP::Publish { props: p1, .. }) if p0 != p1);
                        let path = if rewritten { "alias_rewritten" } else { path };
                        self.paths.insert(path);
                        if near(*size, l) {
                            self.near_limit += 1;
                        }
                        if *size > l as usize || bytes.len() > l as usize {
                            return Err(fail(
                                "C14.oversize_sent",
                                format!("{path}/{}", ap.kind_name()),
                                format!("{} with size() {} / {} encoded bytes was requested for sending although the peer's Maximum Packet Size is {l}", ap.brief(), size, bytes.len()),
                            ));
                        }
                    }
                }
                // a refused send near the limit is interesting as well
                if let Call::Send(ap) = &st.call {
                    if st.sends().is_empty() {
                        let sz = refcodec::encode(ap, idw).len();
                        if near(sz, l) {
                            self.near_limit += 1;
                        }
                    }
                }
            }
            // resume: oversize stored packets are dropped with a release and never kept
            if crate::checks::c06::is_resend_step(pre, st) && t.status == St::Connected {
                if let Some(l) = t.mps_send {
                    for s in &stored_now {
                        let sz = refcodec::encode(s, idw).len();
                        if sz > l as usize {
                            return Err(fail("C14.oversize_stored_kept", "resume", format!("after the resume the store still holds {} ({} bytes) although the peer's Maximum Packet Size is {l}", s.brief(), sz)));
                        }
                    }
                    let sent_ids: Vec<u32> = st.sends().iter().filter_map(|a| a.packet_id()).collect();
                    for s in &self.last_stored {
                        if let Some(id) = s.packet_id() {
                            let sz = refcodec::encode(s, idw).len();
                            if sz > l as usize && !sent_ids.contains(&id) && !st.new_session && !st.released().contains(&id) {
                                return Err(fail("C14.oversize_drop_not_released", "resume", format!("stored packet id {id} ({sz} bytes > {l}) was dropped on resume without releasing its identifier")));
                            }
                        }
                    }
                }
            }
            // inbound: a frame larger than the locally announced maximum
            if let (Call::Recv { bytes, ap: Some(ap) }, Some(own)) = (&st.call, pre.mps_recv) {
                if st.calls.len() == 1 && pre.status != St::Disconnected {
                    if near(bytes.len(), own) {
                        self.near_limit += 1;
                    }
                    if bytes.len() > own as usize {
                        self.oversize_in += 1;
                        let delivered = !st.recvs().is_empty();
                        let err = st.errors().iter().any(|e| *e == "PacketTooLarge");
                        if delivered || !err {
                            return Err(fail(
                                "C14.inbound_oversize_delivered",
                                format!("{}", ap.kind_name()),
                                format!("a {}-byte {} was received although the announced Maximum Packet Size is {own}: delivered={delivered} PacketTooLarge={err}", bytes.len(), ap.kind_name()),
                            ));
                        }
                        let fits = pre.mps_send.map(|m| m >= 4).unwrap_or(true);
                        if pre.status == St::Connected && fits && !st.sends().iter().any(|a| matches!(a, AP::Disconnect { rc: Some(0x95), .. })) {
                            return Err(fail("C14.inbound_no_disconnect", format!("{}", ap.kind_name()), format!("oversize {} on an established connection was not answered with DISCONNECT 0x95: {}", ap.kind_name(), brief_list(&st.events))));
                        }
                    }
                }
            }
            Ok(())
        })();
        self.last_stored = stored_now;
        res
    }
}

/// Frames that keep arriving after the connection sent a DISCONNECT / requested the close (the peer pipelined them, or they
/// were in the same read buffer): the announced limit stays in force until the transport is reported closed, so an oversize
/// frame is still not delivered. Run with `strict_close = false`.
pub struct LateInbound {
    pub late_oversize: u64,
}

impl Observer for LateInbound {
    fn on_step(&mut self, _w: &World, pre: &Tracker, _pa: &App, st: &Step) -> R {
        if st.panic.is_some() || pre.v != Some(V::V5) {
            return Ok(());
        }
        if let (Call::Recv { bytes, ap: Some(ap) }, Some(own)) = (&st.call, pre.mps_recv) {
            let late = pre.close_requested || pre.status == St::Disconnected;
            if st.calls.len() == 1 && late && !pre.closed_reported && bytes.len() > own as usize && !matches!(ap, AP::Connect { .. }) {
                self.late_oversize += 1;
                if !st.recvs().is_empty() {
                    return Err(fail(
                        "C14.inbound_oversize_delivered",
                        format!("late/{}", ap.kind_name()),
                        format!("a {}-byte {} arriving after the close request (transport not yet reported closed) was delivered although the announced Maximum Packet Size is {own}", bytes.len(), ap.kind_name()),
                    ));
                }
            }
        }
        Ok(())
    }
}

pub fn test_late(h: &History, st: &mut Stats) -> R {
    let mut m = LateInbound { late_oversize: 0 };
    let (_w, out, r) = run_history_mode(h, &mut [&mut m], false);
    count_outcome(&out, st);
    r?;
    if m.late_oversize > 0 {
        st.class("late_inbound_oversize");
        st.nontrivial(&(h.cfg, &h.ops));
        st.sample(|| json!({"cfg": cfg_sig(&h.cfg), "ops": h.ops.len(), "oversize_frames_after_close_request": m.late_oversize}));
    }
    Ok(())
}

pub fn profile() -> Profile {
    let mut p = Profile::general();
    p.publish = 14;
    p.peer_publish = 10;
    p.peer_ack = 8;
    p.ack = 5;
    p.sub = 3;
    p.ping = 2;
    p.auth = 2;
    p.ids = 0;
    p.erase = 1;
    p.timers = 2;
    p.opts = 3;
    p.chunk = 0;
    p.rehandshake = 0;
    p.mps_near = true;
    p.max_alias = 3;
    p.max_segments = 3;
    p
}

pub fn strategy() -> proptest::strategy::BoxedStrategy<History> {
    use proptest::prelude::*;
    (crate::checks::c12::v5_cfg().prop_flat_map(|cfg| history_for(profile(), cfg, no_hostile())), any::<u16>())
        .prop_map(|(mut h, r)| {
            // resume path: in a third of the histories the limit announced by the peer at a LATER handshake is placed around
            // the size of an acknowledgement with properties (a PUBREL that may be stored by then) sent on an earlier connection
            if r % 3 == 0 {
                let idw = h.cfg.idw;
                let mut seen: Option<usize> = None;
                for op in h.ops.iter_mut() {
                    match op {
                        Op::Ack { kind, rc, .. } if *rc >= 16 && (*kind == AckKind::Pubrel || r % 2 == 0) => {
                            seen = Some(refcodec::encode(&ack_ap(V::V5, *kind, 1, *rc), idw).len());
                        }
                        // the limit for what this object sends is announced by the peer: CONNACK for a client, CONNECT for a server
                        Op::PeerConnack(a) => {
                            if let Some(sz) = seen {
                                a.p.mps = Some((sz as i64 + [0i64, -1, 1, -2][(r as usize / 6) % 4]).max(1) as u32);
                            }
                        }
                        Op::PeerConnect(a) => {
                            if let Some(sz) = seen {
                                a.p.mps = Some((sz as i64 + [0i64, -1, 1, -2][(r as usize / 6) % 4]).max(1) as u32);
                            }
                        }
                        _ => {}
                    }
                }
            }
            h
        })
        .boxed()
}

pub fn test(h: &History, st: &mut Stats) -> R {
    let mut m = SizeMonitor::new();
    let (_w, out, r) = run_history(h, &mut [&mut m]);
    count_outcome(&out, st);
    r?;
    st.count("send_events_checked", m.sends_checked);
    for p in &m.paths {
        st.class(&format!("send_path: {p}"));
    }
    if m.oversize_in > 0 {
        st.class("inbound_oversize");
    }
    if m.near_limit > 0 {
        st.nontrivial(&(h.cfg, &h.ops));
        st.sample(|| json!({"cfg": cfg_sig(&h.cfg), "ops": h.ops.len(), "packets_within_3_bytes_of_the_limit": m.near_limit, "send_paths": m.paths.iter().collect::<Vec<_>>(), "inbound_oversize_frames": m.oversize_in}));
    }
    Ok(())
}

pub fn run(ctx: &Ctx) -> Report {
    let mut rep = Report::new(
        "v5.0 histories in which the Maximum Packet Size announced by the peer (and by the object itself) is placed at size-2..size+3 of a packet the history will send (receive), or drawn from {1..8, 20..60, 100000, absent}; \
         send paths: direct, automatic responses, stored-and-resent, alias-rewritten; limits may shrink on resume. Monitor: every RequestSendPacket has size() and encoded length <= limit; oversize stored packets are dropped with release; \
         oversize inbound frames are not delivered and answered with DISCONNECT 0x95. non-trivial = some packet size was within +-3 of the limit in force",
    );
    let n = ctx.tier.pick(400_000, 2_000_000);
    let (st, v) = search(ctx, "c14.history", n, strategy, test);
    rep.absorb("histories", st, v, false);
    // the same histories with the peer's frames still arriving after a DISCONNECT was sent / the close was requested
    let n2 = ctx.tier.pick(150_000, 1_000_000);
    let (st, v) = search(ctx, "c14.late", n2, strategy, test_late);
    rep.absorb("late_frames", st, v, false);
    rep.assumptions.push("the limit in force is the one the harness itself put into the peer's CONNECT/CONNACK; DISCONNECT 0x95 is only required on an established connection and when it fits the peer's own limit".into());
    rep
}

pub fn replay(check: &str, case: &serde_json::Value) -> Option<R> {
    if check != "c14.history" && check != "c14.late" {
        return None;
    }
    let h: History = serde_json::from_value(case.clone()).ok()?;
    let mut st = Stats::default();
    if check == "c14.late" {
        return Some(test_late(&h, &mut st));
    }
    Some(test(&h, &mut st))
}
