//! C09 — stream framing is independent of how the byte stream is chunked.

use crate::ap::*;
use crate::conn::*;
use crate::engine::*;
use crate::ensure;
use crate::gen;
use crate::refcodec::{self, Frame};
use crate::util::{catch, hex_trunc};
use mqtt_protocol_core::mqtt;
use mqtt_protocol_core::mqtt::connection::{PacketBuildResult, PacketBuilder};
use proptest::prelude::*;
use serde::{Deserialize, Serialize};
use serde_json::json;

#[derive(Clone, Debug, Serialize, Deserialize)]
pub enum Item {
    Packet(AP),
    /// first byte followed by a Remaining Length that uses a continuation bit in its 4th byte
    BadLength { first: u8, tail: Vec<u8> },
    /// raw bytes (unknown packet types, garbage)
    Raw(#[serde(with = "crate::ap::hexser")] Vec<u8>),
    /// PUBLISH with a body of exactly `body` bytes (Remaining Length width boundaries)
    Sized { body: u32 },
}

#[derive(Clone, Debug, Serialize, Deserialize)]
pub enum Cuts {
    /// every byte in its own chunk
    Bytes,
    /// cut positions chosen by selectors over the stream length
    At(Vec<u16>),
    /// cuts placed inside the fixed header / Remaining Length of frame k (offset 1..=4 after its start)
    InHeader(Vec<(u16, u8)>),
    /// explicit positions (exhaustive enumeration)
    Exact(Vec<usize>),
}

#[derive(Clone, Debug, Serialize, Deserialize)]
pub struct StreamCase {
    pub cfg: ConnCfg,
    pub v: V,
    pub items: Vec<Item>,
    pub cuts: Cuts,
}

pub fn encode_items(items: &[Item], v: V, idw: usize) -> Vec<u8> {
    let mut s = Vec::new();
    for it in items {
        match it {
            Item::Packet(ap) => s.extend_from_slice(&refcodec::encode(ap, idw)),
            Item::BadLength { first, tail } => {
                s.push(*first);
                s.extend_from_slice(&[0x80, 0x80, 0x80, 0x80]);
                s.extend_from_slice(tail);
            }
            Item::Raw(b) => s.extend_from_slice(b),
            Item::Sized { body } => {
                // QoS0 PUBLISH: 2+1 topic bytes, (v5: 1 property length), rest payload
                let fixed = 3 + if v == V::V5 { 1 } else { 0 };
                let body = (*body).max(fixed);
                let ap = AP::Publish {
                    v,
                    dup: false,
                    qos: 0,
                    retain: false,
                    topic: "t".into(),
                    pid: None,
                    props: vec![],
                    payload: (0..(body - fixed)).map(|i| (i * 7) as u8).collect(),
                };
                s.extend_from_slice(&refcodec::encode(&ap, idw));
            }
        }
    }
    s
}

/// frame start offsets per the reference framer
fn frame_starts(stream: &[u8]) -> Vec<usize> {
    let (frames, _) = refcodec::frame(stream);
    let mut v = Vec::new();
    let mut off = 0;
    for f in &frames {
        v.push(off);
        off += match f {
            Frame::Complete { total, .. } => *total,
            Frame::BadLength => 5,
        };
    }
    v
}

pub fn resolve_cuts(c: &Cuts, stream: &[u8]) -> Vec<usize> {
    let n = stream.len();
    let mut v: Vec<usize> = match c {
        Cuts::Bytes => (1..n).collect(),
        Cuts::At(sel) => sel.iter().map(|s| pick_idx(*s, n + 1)).collect(),
        Cuts::InHeader(hs) => {
            let starts = frame_starts(stream);
            if starts.is_empty() {
                vec![]
            } else {
                hs.iter().map(|(k, d)| (starts[pick_idx(*k, starts.len())] + 1 + (*d as usize % 4)).min(n)).collect()
            }
        }
        Cuts::Exact(p) => p.iter().map(|x| (*x).min(n)).collect(),
    };
    v.sort_unstable();
    v
}

fn chunks<'a>(stream: &'a [u8], cuts: &[usize]) -> Vec<&'a [u8]> {
    let mut out = Vec::new();
    let mut prev = 0;
    for &c in cuts {
        out.push(&stream[prev..c]);
        prev = c;
    }
    out.push(&stream[prev..]);
    out
}

/// (1) PacketBuilder::feed alone against the reference framer
pub fn check_feed(stream: &[u8], cuts: &[usize]) -> R {
    let (frames, rest) = refcodec::frame(stream);
    let sig = "PacketBuilder::feed";
    let mut pb = PacketBuilder::new();
    let mut got = 0usize; // frames produced
    let mut global = 0usize; // bytes consumed so far
    let mut frame_end = 0usize; // end offset of the frame being assembled
    let ends: Vec<usize> = {
        let mut v = Vec::new();
        let mut o = 0;
        for f in &frames {
            o += match f {
                Frame::Complete { total, .. } => *total,
                Frame::BadLength => 5,
            };
            v.push(o);
        }
        v
    };
    for ch in chunks(stream, cuts) {
        let mut cur = mqtt::common::Cursor::new(ch);
        loop {
            let before = cur.position() as usize;
            let r = catch(|| pb.feed(&mut cur)).map_err(|pm| Fail::new("C09.frames_ne_reference", format!("{sig}/panic"), pm))?;
            let after = cur.position() as usize;
            ensure!(after <= ch.len(), "C09.overconsumed", sig, "cursor moved past the end of the buffer");
            global += after - before;
            if got < ends.len() {
                frame_end = ends[got];
            }
            match r {
                PacketBuildResult::Incomplete => {
                    ensure!(after == ch.len(), "C09.frames_ne_reference", sig, "Incomplete returned with {} unread bytes in the buffer (stream {} cuts {:?})", ch.len() - after, hex_trunc(stream, 48), cuts);
                    break;
                }
                PacketBuildResult::Complete(raw) => {
                    ensure!(got < frames.len(), "C09.frames_ne_reference", sig, "feed produced frame #{} but the stream holds only {} (stream {} cuts {:?})", got + 1, frames.len(), hex_trunc(stream, 48), cuts);
                    ensure!(global == frame_end, "C09.overconsumed", sig, "after completing frame #{} the stream position is {} but that frame ends at {} (cuts {:?})", got, global, frame_end, cuts);
                    match &frames[got] {
                        Frame::Complete { first, body, .. } => {
                            let fb = (raw.packet_type() << 4) | raw.flags();
                            ensure!(fb == *first && raw.data_as_slice() == &body[..] && raw.remaining_length() as usize == body.len(), "C09.frames_ne_reference", sig, "frame #{}: got first={:#04x} body {}; reference first={:#04x} body {} (cuts {:?})", got, fb, hex_trunc(raw.data_as_slice(), 32), first, hex_trunc(body, 32), cuts);
                        }
                        Frame::BadLength => {
                            return Err(Fail::new("C09.frames_ne_reference", sig, format!("frame #{got}: a 5-byte Remaining Length was accepted (stream {} cuts {:?})", hex_trunc(stream, 48), cuts)));
                        }
                    }
                    got += 1;
                }
                PacketBuildResult::Error(_) => {
                    ensure!(got < frames.len() && frames[got] == Frame::BadLength, "C09.frames_ne_reference", sig, "feed reported an error at result #{} where the reference sees {:?} (stream {} cuts {:?})", got, frames.get(got).map(|f| matches!(f, Frame::BadLength)), hex_trunc(stream, 48), cuts);
                    ensure!(global == frame_end, "C09.overconsumed", sig, "after the over-long Remaining Length the stream position is {} instead of {}: framing does not resume at the next byte (cuts {:?})", global, frame_end, cuts);
                    got += 1;
                }
            }
            if cur.position() as usize >= ch.len() {
                break;
            }
        }
    }
    ensure!(got == frames.len(), "C09.frames_ne_reference", sig, "feed produced {} results, the stream holds {} frames (stream {} cuts {:?})", got, frames.len(), hex_trunc(stream, 48), cuts);
    ensure!(global == stream.len(), "C09.frames_ne_reference", sig, "{} of {} bytes consumed", global, stream.len());
    let (state, hdr, _missing, body) = pb.verif_partial();
    let buffered = hdr.len() + body.len();
    // only idleness at a frame boundary is asserted; how an incomplete frame is buffered is the framer's own business
    ensure!(rest > 0 || (state == "fixed_header" && buffered == 0), "C09.not_idle_at_boundary", sig, "the stream ends at a frame boundary but the framer still buffers {} bytes in state {}", buffered, state);
    Ok(())
}

fn prelude(c: &mut dyn Conn, v: V) -> Result<(), String> {
    // a client must have sent CONNECT before anything is received
    if c.cfg().role == Role::Client {
        let connect = AP::Connect { v, clean: true, keep_alive: 0, client_id: "c".into(), will: None, user: None, pass: None, props: if v == V::V5 { vec![Prop::u16(pid::TOPIC_ALIAS_MAXIMUM, 4), Prop::u16(pid::RECEIVE_MAXIMUM, 3)] } else { vec![] } };
        c.send(&connect)?.map_err(|p| p)?;
    }
    c.set_auto_pub_response(true);
    c.set_auto_ping_response(true);
    Ok(())
}

/// (2) Connection level: partition-fed object vs whole-frame-fed object
pub fn check_conn(case: &StreamCase, stream: &[u8], cuts: &[usize]) -> R {
    let sig = format!("{:?}/{:?}", case.cfg.role, case.cfg.ver);
    let mut a = new_conn(case.cfg);
    let mut b = new_conn(case.cfg);
    prelude(a.as_mut(), case.v).map_err(|e| Fail::new("C09.trace_ne_whole_frame_trace", format!("{sig}/prelude"), e))?;
    prelude(b.as_mut(), case.v).map_err(|e| Fail::new("C09.trace_ne_whole_frame_trace", format!("{sig}/prelude"), e))?;
    // A: partition
    let mut ta: Vec<NEvent> = Vec::new();
    let mut consumed_a = 0usize;
    let starts = frame_starts(stream);
    let (frames, rest) = refcodec::frame(stream);
    let mut boundaries: Vec<usize> = starts.clone();
    boundaries.push(stream.len() - rest);
    for ch in chunks(stream, cuts) {
        if ch.is_empty() {
            // a zero-length receive buffer is a chunk like any other: it consumes nothing and must not disturb a partial frame
            match a.recv_once(ch) {
                Ok((n, e)) => {
                    ensure!(n == 0, "C09.overconsumed", &sig, "recv over an empty buffer reports {} consumed bytes", n);
                    ta.extend(e);
                }
                Err(_) => return Ok(()),
            }
            continue;
        }
        let calls = match recv_all(a.as_mut(), ch) {
            Ok(c) => c,
            Err(e) if e.starts_with("WEDGE") => return Err(Fail::new("C09.overconsumed", format!("{sig}/no_progress"), e)),
            // a panic inside recv is decided by C05; here it only ends the comparison
            Err(_) => return Ok(()),
        };
        for (n, e) in calls {
            consumed_a += n;
            // every call consumes at most one packet: a call that returned a packet event must not have read past its frame
            if e.iter().any(|x| matches!(x, NEvent::Recv(_))) {
                ensure!(boundaries.contains(&consumed_a), "C09.overconsumed", &sig, "a recv call delivered a packet and left the stream at offset {} which is not a frame boundary {:?}", consumed_a, boundaries);
            }
            ta.extend(e);
        }
        if boundaries.contains(&consumed_a) && consumed_a == (stream.len() - rest).min(consumed_a) {
            let st = a.state();
            let pbs = st.iter().find(|(k, _)| k == "packet_builder").map(|(_, v)| v.clone()).unwrap_or_default();
            ensure!(pbs.starts_with("fixed_header::"), "C09.not_idle_at_boundary", &sig, "at frame boundary {} the framer is not idle: {}", consumed_a, pbs);
        }
    }
    // B: one whole frame per call (plus the trailing partial frame)
    let mut tb: Vec<NEvent> = Vec::new();
    let mut off = 0;
    for f in &frames {
        let len = match f {
            Frame::Complete { total, .. } => *total,
            Frame::BadLength => 5,
        };
        match recv_all(b.as_mut(), &stream[off..off + len]) {
            Ok(calls) => tb.extend(flat(&calls)),
            Err(e) if e.starts_with("WEDGE") => return Err(Fail::new("C09.overconsumed", format!("{sig}/no_progress"), e)),
            Err(_) => return Ok(()),
        }
        off += len;
    }
    if off < stream.len() {
        match recv_all(b.as_mut(), &stream[off..]) {
            Ok(calls) => tb.extend(flat(&calls)),
            Err(_) => return Ok(()),
        }
    }
    let (na, nb) = (normalise(ta), normalise(tb));
    if na != nb {
        let i = na.iter().zip(nb.iter()).position(|(x, y)| x != y).unwrap_or(na.len().min(nb.len()));
        return Err(Fail::new(
            "C09.trace_ne_whole_frame_trace",
            &sig,
            format!(
                "stream {} cut at {:?}: event #{} differs\n  chunked: {}\n  whole  : {}",
                hex_trunc(stream, 64),
                cuts,
                i,
                na.get(i).map(|e| e.brief()).unwrap_or_else(|| "<end>".into()),
                nb.get(i).map(|e| e.brief()).unwrap_or_else(|| "<end>".into())
            ),
        ));
    }
    ensure!(a.state() == b.state(), "C09.trace_ne_whole_frame_trace", format!("{sig}/state"), "final states differ: {:?}", state_diff(&a.state(), &b.state(), &[]));
    Ok(())
}

/// A local API call made between two receive buffers while a frame is half received.
#[derive(Clone, Copy, Debug, PartialEq, Eq, Hash, Serialize, Deserialize)]
pub enum LocalOp {
    ConnackAccept,
    ConnackRefuse,
    Pingreq,
    PublishQ0,
    PublishQ1,
    Disconnect,
    AcquireId,
    PingInterval,
    AutoPubOff,
}

#[derive(Clone, Debug, Serialize, Deserialize)]
pub struct InterCase {
    pub cfg: ConnCfg,
    pub v: V,
    pub items: Vec<Item>,
    /// selector of the cut position (mapped to a position strictly inside a frame when one exists)
    pub cut: u16,
    pub local: LocalOp,
}

fn do_local(c: &mut dyn Conn, v: V, op: LocalOp) -> Result<Vec<NEvent>, String> {
    let send = |c: &mut dyn Conn, ap: AP| -> Result<Vec<NEvent>, String> { c.send(&ap)? };
    match op {
        LocalOp::ConnackAccept => send(c, AP::Connack { v, sp: false, code: 0, props: vec![] }),
        LocalOp::ConnackRefuse => send(c, AP::Connack { v, sp: false, code: if v == V::V5 { 0x87 } else { 5 }, props: vec![] }),
        LocalOp::Pingreq => send(c, AP::Pingreq { v }),
        LocalOp::PublishQ0 => send(c, AP::Publish { v, dup: false, qos: 0, retain: false, topic: "l/0".into(), pid: None, props: vec![], payload: vec![7] }),
        LocalOp::PublishQ1 => match c.acquire()? {
            Ok(id) => send(c, AP::Publish { v, dup: false, qos: 1, retain: false, topic: "l/1".into(), pid: Some(id), props: vec![], payload: vec![8] }),
            Err(_) => Ok(vec![]),
        },
        LocalOp::Disconnect => send(c, AP::Disconnect { v, rc: if v == V::V5 { Some(0) } else { None }, props: None }),
        LocalOp::AcquireId => c.acquire().map(|_| vec![]),
        LocalOp::PingInterval => c.set_pingreq_send_interval(Some(3000)),
        LocalOp::AutoPubOff => {
            c.set_auto_pub_response(false);
            Ok(vec![])
        }
    }
}

/// (3) a local call between two receive buffers: the half-received frame is unaffected. Object A gets the stream cut at one
/// position with the local call between the two buffers; object B gets the frames completed by the first buffer one at a time,
/// then the same local call, then the remaining frames one at a time.
pub fn check_interleaved(case: &InterCase, st: &mut Stats) -> R {
    let sig = format!("interleaved/{:?}/{:?}/{:?}", case.cfg.role, case.cfg.ver, case.local);
    let stream = encode_items(&case.items, case.v, case.cfg.idw);
    let starts = frame_starts(&stream);
    let (frames, rest) = refcodec::frame(&stream);
    if stream.len() < 2 {
        return Ok(());
    }
    // candidate positions strictly inside a frame
    let mut boundaries: Vec<usize> = starts.clone();
    boundaries.push(stream.len() - rest);
    let inside: Vec<usize> = (1..stream.len()).filter(|p| !boundaries.contains(p)).collect();
    let cut = if inside.is_empty() { pick_idx(case.cut, stream.len() - 1) + 1 } else { inside[pick_idx(case.cut, inside.len())] };
    let mut a = new_conn(case.cfg);
    let mut b = new_conn(case.cfg);
    prelude(a.as_mut(), case.v).map_err(|e| Fail::new("C09.trace_ne_whole_frame_trace", format!("{sig}/prelude"), e))?;
    prelude(b.as_mut(), case.v).map_err(|e| Fail::new("C09.trace_ne_whole_frame_trace", format!("{sig}/prelude"), e))?;
    let mut ta: Vec<NEvent> = Vec::new();
    let mut tb: Vec<NEvent> = Vec::new();
    // A
    match recv_all(a.as_mut(), &stream[..cut]) {
        Ok(c) => ta.extend(flat(&c)),
        Err(e) if e.starts_with("WEDGE") => return Err(Fail::new("C09.overconsumed", format!("{sig}/no_progress"), e)),
        Err(_) => return Ok(()),
    }
    match do_local(a.as_mut(), case.v, case.local) {
        Ok(e) => ta.extend(e),
        Err(_) => return Ok(()),
    }
    match recv_all(a.as_mut(), &stream[cut..]) {
        Ok(c) => ta.extend(flat(&c)),
        Err(e) if e.starts_with("WEDGE") => return Err(Fail::new("C09.overconsumed", format!("{sig}/no_progress"), e)),
        Err(_) => return Ok(()),
    }
    // B
    let mut off = 0;
    let mut local_done = false;
    for f in &frames {
        let len = match f {
            Frame::Complete { total, .. } => *total,
            Frame::BadLength => 5,
        };
        if !local_done && off + len > cut {
            match do_local(b.as_mut(), case.v, case.local) {
                Ok(e) => tb.extend(e),
                Err(_) => return Ok(()),
            }
            local_done = true;
        }
        match recv_all(b.as_mut(), &stream[off..off + len]) {
            Ok(calls) => tb.extend(flat(&calls)),
            Err(e) if e.starts_with("WEDGE") => return Err(Fail::new("C09.overconsumed", format!("{sig}/no_progress"), e)),
            Err(_) => return Ok(()),
        }
        off += len;
    }
    if !local_done {
        match do_local(b.as_mut(), case.v, case.local) {
            Ok(e) => tb.extend(e),
            Err(_) => return Ok(()),
        }
    }
    if off < stream.len() {
        match recv_all(b.as_mut(), &stream[off..]) {
            Ok(calls) => tb.extend(flat(&calls)),
            Err(_) => return Ok(()),
        }
    }
    let (na, nb) = (normalise(ta), normalise(tb));
    if na != nb {
        let i = na.iter().zip(nb.iter()).position(|(x, y)| x != y).unwrap_or(na.len().min(nb.len()));
        return Err(Fail::new(
            "C09.trace_ne_whole_frame_trace",
            &sig,
            format!(
                "stream {} cut at {} with {:?} called between the two buffers: event #{} differs\n  chunked: {}\n  whole  : {}",
                hex_trunc(&stream, 64),
                cut,
                case.local,
                i,
                na.get(i).map(|e| e.brief()).unwrap_or_else(|| "<end>".into()),
                nb.get(i).map(|e| e.brief()).unwrap_or_else(|| "<end>".into())
            ),
        ));
    }
    ensure!(a.state() == b.state(), "C09.trace_ne_whole_frame_trace", format!("{sig}/state"), "final states differ: {:?}", state_diff(&a.state(), &b.state(), &[]));
    if !inside.is_empty() {
        st.nontrivial(&(&stream, cut, case.local));
        st.class("local_call_inside_frame");
        if nb.iter().any(|e| matches!(e, NEvent::Send { .. })) {
            st.class("local_call_inside_frame_and_something_sent");
        }
        st.sample(|| json!({"role": format!("{:?}", case.cfg.role), "version": case.v.name(), "frames": frames.len(), "cut": cut, "local_call": format!("{:?}", case.local), "stream": hex_trunc(&stream, 40)}));
    }
    Ok(())
}

pub fn inter_strategy() -> BoxedStrategy<InterCase> {
    cfg_strategy()
        .prop_flat_map(move |(cfg, v)| {
            let local = proptest::sample::select(vec![
                LocalOp::ConnackAccept,
                LocalOp::ConnackAccept,
                LocalOp::ConnackRefuse,
                LocalOp::Pingreq,
                LocalOp::PublishQ0,
                LocalOp::PublishQ1,
                LocalOp::Disconnect,
                LocalOp::AcquireId,
                LocalOp::PingInterval,
                LocalOp::AutoPubOff,
            ]);
            (proptest::collection::vec(item(cfg.role, v, cfg.idw, false), 1..5), any::<u16>(), local, any::<u8>()).prop_map(move |(mut items, cut, local, hs)| {
                // most streams start with the handshake packet the role expects, so that the local call meets a live connection
                if hs % 4 != 0 {
                    let first = match cfg.role {
                        Role::Client => AP::Connack { v, sp: false, code: 0, props: vec![] },
                        _ => AP::Connect { v, clean: hs % 2 == 0, keep_alive: if hs % 8 < 4 { 0 } else { 10 }, client_id: "c".into(), will: None, user: None, pass: None, props: vec![] },
                    };
                    items.insert(0, Item::Packet(first));
                }
                InterCase { cfg, v, items, cut, local }
            })
        })
        .boxed()
}

pub fn test(case: &StreamCase, st: &mut Stats) -> R {
    let stream = encode_items(&case.items, case.v, case.cfg.idw);
    let cuts = resolve_cuts(&case.cuts, &stream);
    check_feed(&stream, &cuts)?;
    check_conn(case, &stream, &cuts)?;
    // classification
    let starts = frame_starts(&stream);
    let (frames, _) = refcodec::frame(&stream);
    let in_header = cuts.iter().any(|c| {
        starts.iter().zip(frames.iter()).any(|(s, f)| {
            let hdr = match f {
                Frame::Complete { total, body, .. } => total - body.len(),
                Frame::BadLength => 5,
            };
            *c > *s && *c < *s + hdr
        })
    });
    if frames.len() >= 2 && in_header {
        st.nontrivial(&(&stream, &cuts));
        st.class("cut_inside_header");
        st.sample(|| json!({"role": format!("{:?}", case.cfg.role), "version": case.v.name(), "frames": frames.len(), "stream": hex_trunc(&stream, 40), "cuts": cuts.iter().take(12).collect::<Vec<_>>()}));
    }
    if frames.iter().any(|f| matches!(f, Frame::BadLength)) {
        st.class("has_overlong_remaining_length");
    }
    if frames.iter().any(|f| matches!(f, Frame::Complete { body, .. } if body.len() >= 128)) {
        st.class("has_2byte_remaining_length");
    }
    if frames.iter().any(|f| matches!(f, Frame::Complete { body, .. } if body.len() >= 16384)) {
        st.class("has_3byte_remaining_length");
    }
    if frames.iter().any(|f| matches!(f, Frame::Complete { body, .. } if body.len() >= 2_097_152)) {
        st.class("has_4byte_remaining_length");
    }
    if matches!(case.cuts, Cuts::Bytes) {
        st.class("single_byte_chunks");
    }
    Ok(())
}

fn receivable(role: Role, v: V, idw: usize) -> BoxedStrategy<AP> {
    // mostly what the role may legitimately receive, sometimes anything
    let o = gen::GenOpts { big: false, beyond_spec: false };
    let any = gen::any_packet(v, idw, o);
    let pubs = gen::publish(v, idw, false);
    let acks = prop_oneof![gen::ack(v, AckKind::Puback, idw, false, false), gen::ack(v, AckKind::Pubrel, idw, false, false), gen::ack(v, AckKind::Pubcomp, idw, false, false)];
    let hs = match role {
        Role::Client => gen::connack(v, false),
        _ => gen::connect(v, false),
    };
    prop_oneof![3 => pubs, 2 => acks, 2 => hs, 1 => Just(AP::Pingreq { v }), 1 => Just(AP::Pingresp { v }), 2 => any].boxed()
}

fn item(role: Role, v: V, idw: usize, big: bool) -> BoxedStrategy<Item> {
    let sized = if big {
        proptest::sample::select(vec![0u32, 1, 127, 128, 129, 16383, 16384, 16383, 16384, 127, 128, 2_097_151, 2_097_152]).boxed()
    } else {
        proptest::sample::select(vec![0u32, 1, 127, 128, 129, 16383, 16384]).boxed()
    };
    prop_oneof![
        10 => receivable(role, v, idw).prop_map(Item::Packet),
        2 => (any::<u8>(), proptest::collection::vec(any::<u8>(), 0..3)).prop_map(|(first, tail)| Item::BadLength { first, tail }),
        1 => proptest::collection::vec(prop_oneof![Just(0u8), 0u8..16, any::<u8>()], 1..6).prop_map(Item::Raw),
        2 => sized.prop_map(|body| Item::Sized { body }),
    ]
    .boxed()
}

fn cfg_strategy() -> BoxedStrategy<(ConnCfg, V)> {
    (
        proptest::sample::select(vec![Role::Client, Role::Server, Role::Any]),
        gen::version(),
        prop_oneof![3 => Just(2usize), 1 => Just(4usize)],
        any::<bool>(),
    )
        .prop_map(|(role, v, idw, undet)| {
            let ver = if undet && role != Role::Client { CVer::Undetermined } else { CVer::of(v) };
            (ConnCfg { role, ver, idw }, v)
        })
        .boxed()
}

pub fn case_strategy(big: bool) -> BoxedStrategy<StreamCase> {
    cfg_strategy()
        .prop_flat_map(move |(cfg, v)| {
            let cuts = prop_oneof![
                2 => Just(Cuts::Bytes),
                4 => proptest::collection::vec(any::<u16>(), 0..8).prop_map(Cuts::At),
                4 => proptest::collection::vec((any::<u16>(), 0u8..4), 1..6).prop_map(Cuts::InHeader),
            ];
            (proptest::collection::vec(item(cfg.role, v, cfg.idw, big), 1..7), cuts).prop_map(move |(items, cuts)| StreamCase { cfg, v, items, cuts })
        })
        .boxed()
}

/// all 1- and 2-cut partitions of one short stream
#[derive(Clone, Debug, Serialize, Deserialize)]
pub struct ShortStream {
    pub cfg: ConnCfg,
    pub v: V,
    pub items: Vec<Item>,
}

pub fn test_all_partitions(s: &ShortStream, st: &mut Stats) -> R {
    let stream = encode_items(&s.items, s.v, s.cfg.idw);
    let n = stream.len();
    let mut count = 0u64;
    let mut one = |cuts: Vec<usize>, st: &mut Stats| -> R {
        count += 1;
        let case = StreamCase { cfg: s.cfg, v: s.v, items: s.items.clone(), cuts: Cuts::Exact(cuts.clone()) };
        check_feed(&stream, &cuts)?;
        check_conn(&case, &stream, &cuts)?;
        st.nontrivial(&(&stream, &cuts));
        Ok(())
    };
    one(vec![], st)?;
    for i in 1..n {
        one(vec![i], st)?;
        for j in i..n {
            one(vec![i, j], st)?;
        }
    }
    st.evaluations += count.saturating_sub(1);
    st.sample(|| json!({"stream": hex_trunc(&stream, 40), "partitions": count, "all_1_and_2_cut_partitions": true}));
    Ok(())
}

pub fn short_streams(n: usize, seed: u64) -> Vec<ShortStream> {
    // deterministic list drawn from the case strategy with a fixed rng; streams longer than 36 bytes are trimmed by item count
    use proptest::strategy::ValueTree;
    use proptest::test_runner::{Config, RngAlgorithm, TestRng, TestRunner};
    let mut bytes = [0u8; 32];
    bytes[..8].copy_from_slice(&seed.to_le_bytes());
    let mut runner = TestRunner::new_with_rng(Config::default(), TestRng::from_seed(RngAlgorithm::ChaCha, &bytes));
    let strat = case_strategy(false);
    let mut out = Vec::new();
    let mut guard = 0;
    while out.len() < n && guard < n * 50 {
        guard += 1;
        let c = strat.new_tree(&mut runner).unwrap().current();
        let mut items = c.items.clone();
        items.retain(|i| !matches!(i, Item::Sized { .. }));
        while !items.is_empty() && encode_items(&items, c.v, c.cfg.idw).len() > 36 {
            items.pop();
        }
        if items.len() >= 2 {
            out.push(ShortStream { cfg: c.cfg, v: c.v, items });
        }
    }
    out
}

pub fn run(ctx: &Ctx) -> Report {
    let mut rep = Report::new(
        "streams = 1..6 items (valid packets of every kind for the role, frames with a 5-byte Remaining Length, raw garbage, PUBLISH bodies at the Remaining-Length width boundaries) \
         x partitions (single bytes, random cuts, cuts inside fixed header / Remaining Length); oracle (1) PacketBuilder::feed == reference framer, one result per call, no over-read, resumes after bad length; \
         (2) chunk-fed connection trace == whole-frame-fed trace and framer idle at boundaries; plus ALL 1- and 2-cut partitions of short streams (incl. zero-length buffers); \
         (3) a local API call (CONNACK, PINGREQ, PUBLISH, DISCONNECT, acquire, option change) between two buffers while a frame is half received changes nothing: trace and state equal the whole-frame run with the call at the same place. \
         non-trivial = >= 2 frames and a cut strictly inside a header/Remaining Length; distinct by (stream, cuts)",
    );
    let big = ctx.tier == Tier::Thorough;
    let n = ctx.tier.pick(300_000, 300_000);
    let (st, v) = search(ctx, "c09.random", n, || case_strategy(big), test);
    rep.absorb("random_streams_and_partitions", st, v, false);
    let shorts = short_streams(ctx.tier.pick(1000, 10_000) as usize, ctx.seed);
    let (st, v) = enumerate(ctx, "c09.allcuts", &shorts, test_all_partitions);
    rep.absorb("all_1_and_2_cut_partitions", st, v, true);
    let n3 = ctx.tier.pick(150_000, 1_000_000);
    let (st, v) = search(ctx, "c09.interleaved", n3, inter_strategy, check_interleaved);
    rep.absorb("local_call_between_two_buffers", st, v, false);
    rep.exhaustive = false;
    rep.assumptions.push("a panic inside recv ends a case here and is decided by C05".into());
    rep
}

pub fn replay(check: &str, case: &serde_json::Value) -> Option<R> {
    let mut st = Stats::default();
    match check {
        "c09.random" => {
            let c: StreamCase = serde_json::from_value(case.clone()).ok()?;
            Some(test(&c, &mut st))
        }
        "c09.interleaved" => {
            let c: InterCase = serde_json::from_value(case.clone()).ok()?;
            Some(check_interleaved(&c, &mut st))
        }
        "c09.allcuts" => {
            let c: ShortStream = serde_json::from_value(case.clone()).ok()?;
            Some(test_all_partitions(&c, &mut st))
        }
        _ => None,
    }
}
