//! C06 — outbound QoS1/2: stored until acknowledged, retransmitted on session resume.

use crate::ap::*;
use crate::conn::*;
use crate::engine::*;
use crate::hist::*;
use crate::refcodec;
use crate::scn::*;
use serde_json::json;

#[derive(Clone, Debug, PartialEq, Eq)]
pub enum Entry {
    /// (id, qos, retain, topic, payload, non-alias properties)
    Pub { id: u32, qos: u8, retain: bool, topic: String, payload: Vec<u8>, props: Vec<Prop> },
    Pubrel { id: u32 },
}

impl Entry {
    pub fn id(&self) -> u32 {
        match self {
            Entry::Pub { id, .. } | Entry::Pubrel { id } => *id,
        }
    }
    fn of_stored(ap: &AP) -> Result<Entry, String> {
        match ap {
            AP::Publish { dup, qos, retain, topic, pid: Some(id), props, payload, .. } => {
                if !*dup {
                    return Err(format!("stored PUBLISH id {id} does not have DUP set"));
                }
                if props.iter().any(|p| p.id == pid::TOPIC_ALIAS) {
                    return Err(format!("stored PUBLISH id {id} carries a Topic Alias"));
                }
                if topic.is_empty() {
                    return Err(format!("stored PUBLISH id {id} has an empty topic"));
                }
                Ok(Entry::Pub { id: *id, qos: *qos, retain: *retain, topic: topic.clone(), payload: payload.clone(), props: props.clone() })
            }
            AP::Ack { kind: AckKind::Pubrel, pid, .. } => Ok(Entry::Pubrel { id: *pid }),
            other => Err(format!("unexpected stored packet {}", other.brief())),
        }
    }
    fn brief(&self) -> String {
        match self {
            Entry::Pub { id, qos, topic, payload, .. } => format!("PUBLISH(id={id},q{qos},{topic:?},{}B)", payload.len()),
            Entry::Pubrel { id } => format!("PUBREL(id={id})"),
        }
    }
}

fn entries_brief(v: &[Entry]) -> String {
    format!("[{}]", v.iter().map(|e| e.brief()).collect::<Vec<_>>().join(", "))
}

pub struct StoreModel {
    pub store: Vec<Entry>,
    /// library store / free ids after the previous step (= before this one)
    last_stored: Vec<AP>,
    /// free id intervals after the previous step (None before the first step)
    last_free: Option<Vec<(u64, u64)>>,
    pub unmatched_acks: u64,
    pub resumes_nonempty: u64,
    pub offline_publishes: u64,
    pub persistent_accepts: u64,
}

impl StoreModel {
    pub fn new() -> StoreModel {
        StoreModel { store: vec![], last_stored: vec![], last_free: None, unmatched_acks: 0, resumes_nonempty: 0, offline_publishes: 0, persistent_accepts: 0 }
    }
    fn remove(&mut self, id: u32, pred: impl Fn(&Entry) -> bool) -> bool {
        if let Some(i) = self.store.iter().position(|e| e.id() == id && pred(e)) {
            self.store.remove(i);
            true
        } else {
            false
        }
    }
}

fn sent_size(ap: &AP, idw: usize) -> usize {
    refcodec::encode(ap, idw).len()
}

impl Observer for StoreModel {
    fn on_step(&mut self, w: &World, pre: &Tracker, pre_app: &App, st: &Step) -> R {
        check_wire("C06", st, w.t.cfg.idw)?;
        if st.panic.is_some() {
            return Ok(());
        }
        let t = &w.t;
        let v = t.v.map(|v| v.name()).unwrap_or("undetermined");
        let idw = t.cfg.idw;
        let stored_now = w.c.stored();
        let free_now = w.c.free_ids();
        let result = (|| -> R {
            // ---- a new session empties the store
            if st.new_session {
                self.store.clear();
            }
            match &st.call {
                Call::Send(ap) => match ap {
                    AP::Publish { qos, pid: Some(id), retain, topic, payload, props, .. } if *qos > 0 && !st.has_error() => {
                        let sent = st.sends().iter().any(|s| matches!(s, AP::Publish { pid: Some(x), .. } if x == id));
                        let in_store = stored_now.iter().any(|s| s.packet_id() == Some(*id) && matches!(s, AP::Publish { .. }));
                        if !sent && !in_store {
                            return Err(fail(
                                "C06.silent_drop",
                                format!("{:?}/persistent={}/offline={}/{v}", pre.status, pre.persistent, pre.offline),
                                format!("send accepted PUBLISH id {id} QoS {qos} without an error event, but it was neither requested for sending nor kept in the store"),
                            ));
                        }
                        if pre.status != St::Connected {
                            self.offline_publishes += 1;
                        }
                        if pre.persistent || (pre.offline && pre.status != St::Connected) {
                            self.persistent_accepts += 1;
                            let props: Vec<Prop> = props.iter().filter(|p| p.id != pid::TOPIC_ALIAS).cloned().collect();
                            self.store.push(Entry::Pub { id: *id, qos: *qos, retain: *retain, topic: topic.clone(), payload: payload.clone(), props });
                        }
                    }
                    AP::Ack { kind: AckKind::Pubrel, pid, .. } if !st.has_error() && pre.persistent => {
                        self.store.push(Entry::Pubrel { id: *pid });
                    }
                    _ => {}
                },
                Call::Erase(id) => {
                    self.remove(*id, |e| matches!(e, Entry::Pub { .. }));
                }
                Call::Closed => {
                    if !pre.persistent {
                        self.store.clear();
                    }
                }
                _ => {}
            }
            // automatic PUBREL (stored when persistent)
            if !matches!(st.call, Call::Send(_)) && pre.persistent {
                let resend = is_resend_step(pre, st);
                if !resend {
                    for s in st.sends() {
                        if let AP::Ack { kind: AckKind::Pubrel, pid, .. } = s {
                            self.store.push(Entry::Pubrel { id: *pid });
                        }
                    }
                }
            }
            // ---- acknowledgements from the peer
            if let Call::Recv { ap: Some(ack @ AP::Ack { kind, pid, .. }), .. } = &st.call {
                let id = *pid;
                let (matches_inflight, what) = match kind {
                    AckKind::Puback => (pre_app.out_q1.contains(&id), "PUBACK"),
                    AckKind::Pubrec => (pre_app.out_q2_rec.contains(&id), "PUBREC"),
                    AckKind::Pubcomp => (pre_app.out_q2_comp.contains(&id), "PUBCOMP"),
                    AckKind::Pubrel => (true, "PUBREL"),
                };
                let delivered = st.recvs().iter().any(|a| a == &ack);
                if *kind != AckKind::Pubrel {
                    if !matches_inflight {
                        self.unmatched_acks += 1;
                        // a frame larger than the locally announced Maximum Packet Size is reported as PacketTooLarge instead
                        let frame_len = refcodec::encode(ack, idw).len();
                        let fits = pre.mps_recv.map(|m| frame_len <= m as usize).unwrap_or(true);
                        let perr = st.errors().iter().any(|e| *e == "ProtocolError") || (!fits && st.has_error());
                        if delivered || !perr {
                            return Err(fail(
                                "C06.unmatched_ack_accepted",
                                format!("{what}/{v}"),
                                format!("{what} for id {id} matches nothing in flight (in flight: q1 {:?}, q2 awaiting PUBREC {:?}, awaiting PUBCOMP {:?}) but was {} (errors {:?})", pre_app.out_q1, pre_app.out_q2_rec, pre_app.out_q2_comp, if delivered { "delivered" } else { "not reported as protocol error" }, st.errors()),
                            ));
                        }
                        if stored_now != self.last_stored || self.last_free.as_ref().map(|f| *f != free_now).unwrap_or(false) {
                            return Err(fail(
                                "C06.unmatched_ack_changed_state",
                                format!("{what}/{v}"),
                                format!("{what} for id {id} matches nothing in flight but changed the session: store {} -> {} packets, free ids {:?} -> {:?}", self.last_stored.len(), stored_now.len(), self.last_free, free_now),
                            ));
                        }
                    } else if delivered {
                        match kind {
                            AckKind::Puback => {
                                self.remove(id, |e| matches!(e, Entry::Pub { qos: 1, .. }));
                            }
                            AckKind::Pubrec => {
                                self.remove(id, |e| matches!(e, Entry::Pub { qos: 2, .. }));
                            }
                            AckKind::Pubcomp => {
                                self.remove(id, |e| matches!(e, Entry::Pubrel { .. }));
                            }
                            AckKind::Pubrel => {}
                        }
                    }
                }
            }
            // ---- resend on re-establishment
            if is_resend_step(pre, st) && t.status == St::Connected {
                let client_sp = st.recvs().iter().find_map(|a| if let AP::Connack { sp, .. } = a { Some(*sp) } else { None });
                let resumes = match client_sp {
                    Some(sp) => sp,
                    None => true, // server: sending CONNACK re-sends whatever the session holds
                };
                if resumes {
                    let limit = t.mps_send.map(|x| x as usize).unwrap_or(usize::MAX);
                    // oversize entries are dropped with a release
                    let mut expect: Vec<Entry> = Vec::new();
                    let mut dropped: Vec<u32> = Vec::new();
                    for (e, ap) in self.store.iter().zip(self.last_stored.iter()) {
                        if sent_size(ap, idw) > limit {
                            dropped.push(e.id());
                        } else {
                            expect.push(e.clone());
                        }
                    }
                    if self.store.len() == self.last_stored.len() {
                        let sends: Vec<&AP> = st.sends().into_iter().filter(|a| !matches!(a, AP::Connack { .. })).collect();
                        let got: Result<Vec<Entry>, String> = sends.iter().map(|a| Entry::of_stored(a)).collect();
                        match got {
                            Err(e) => return Err(fail("C06.resend_ne_store", format!("{v}/shape"), format!("after the handshake a packet that is not a stored one was requested: {e}; sends: {}", brief_list(&st.events)))),
                            Ok(got) => {
                                if got != expect {
                                    return Err(fail(
                                        "C06.resend_ne_store",
                                        format!("{v}/{}{}", if client_sp.is_some() { "client" } else { "server" }, if st.recvs().iter().any(|a| matches!(a, AP::Connack { sp: true, code: 0, .. }) && a.prop_u32(pid::SESSION_EXPIRY_INTERVAL) == Some(0)) { "/CONNACK(session_present=1,SessionExpiryInterval=0)" } else { "" }),
                                        format!("session resumed with store {} but the packets re-sent right after the CONNACK are {}", entries_brief(&expect), entries_brief(&got)),
                                    ));
                                }
                            }
                        }
                        if !expect.is_empty() {
                            self.resumes_nonempty += 1;
                        }
                        // server: CONNACK first
                        if client_sp.is_none() {
                            let first_send = st.sends().first().map(|a| matches!(a, AP::Connack { .. })).unwrap_or(true);
                            if !first_send {
                                return Err(fail("C06.resend_not_first", v, "a stored packet was requested before the CONNACK"));
                            }
                        }
                        for id in &dropped {
                            if !st.released().contains(id) {
                                return Err(fail("C06.store_ne_model", format!("{v}/oversize_drop_not_released"), format!("stored packet id {id} exceeds the peer's Maximum Packet Size and was not re-sent, but its identifier was not released")));
                            }
                        }
                        self.store = expect;
                    }
                }
            }
            // ---- the exported store equals the model while the session is kept
            if t.persistent || pre.persistent || !self.store.is_empty() {
                let lib: Result<Vec<Entry>, String> = stored_now.iter().map(Entry::of_stored).collect();
                match lib {
                    Err(e) => return Err(fail("C06.store_ne_model", format!("{v}/shape"), e)),
                    Ok(lib) => {
                        if lib != self.store {
                            return Err(fail(
                                "C06.store_ne_model",
                                format!("{v}/{}", match &st.call {
                                    Call::Send(ap) => format!("send/{}", ap.kind_name()),
                                    Call::Recv { ap: Some(ap), .. } => format!("recv/{}", ap.kind_name()),
                                    Call::Closed => "notify_closed".into(),
                                    Call::Erase(_) => "erase".into(),
                                    _ => "other".into(),
                                }),
                                format!("get_stored_packets() = {} but the accepted and not yet acknowledged messages are {}", entries_brief(&lib), entries_brief(&self.store)),
                            ));
                        }
                    }
                }
            }
            // every stored id is held
            for s in &stored_now {
                if let Some(id) = s.packet_id() {
                    if free_now.iter().any(|(l, h)| *l <= id as u64 && id as u64 <= *h) {
                        return Err(fail("C06.stored_id_not_in_use", v, format!("packet id {id} is stored but its identifier is free")));
                    }
                }
            }
            if st.new_session && !stored_now.is_empty() {
                return Err(fail("C06.new_session_store_kept", v, format!("a new session started but {} packets are still stored", stored_now.len())));
            }
            Ok(())
        })();
        self.last_stored = stored_now;
        self.last_free = Some(free_now);
        result
    }
}

pub fn is_resend_step(pre: &Tracker, st: &Step) -> bool {
    pre.status == St::Connecting
        && (st.recvs().iter().any(|a| matches!(a, AP::Connack { code: 0, .. })) || st.sends().iter().any(|a| matches!(a, AP::Connack { code: 0, .. })))
}

pub fn profile() -> Profile {
    let mut p = Profile::general();
    p.publish = 16;
    p.peer_ack = 16;
    p.peer_publish = 2;
    p.ack = 4;
    p.erase = 3;
    p.ids = 0;
    p.sub = 2;
    p.ping = 1;
    p.auth = 0;
    p.timers = 0;
    p.rehandshake = 0;
    p.opts = 2;
    p.offline_ops = 3;
    p.max_alias = 2;
    p.alias_use = false; // an empty-topic publish needs the alias model (C13); None/Bind only
    p.max_body = 30;
    p.max_segments = 4;
    p
}

pub fn strategy() -> proptest::strategy::BoxedStrategy<History> {
    history(profile(), false, no_hostile())
}

pub fn test(h: &History, st: &mut Stats) -> R {
    // alias "use" publishes need the alias model; keep only None/Bind (Bind(0/1) with max 0 is refused, also fine)
    let mut m = StoreModel::new();
    let (_w, out, r) = run_history(h, &mut [&mut m]);
    count_outcome(&out, st);
    r?;
    if m.persistent_accepts > 0 && (m.unmatched_acks > 0 || m.resumes_nonempty > 0 || m.offline_publishes > 0) {
        st.nontrivial(&(h.cfg, &h.ops));
        if m.unmatched_acks > 0 {
            st.class("unmatched_acknowledgement");
        }
        if m.resumes_nonempty > 0 {
            st.class("resume_with_non_empty_store");
        }
        if m.offline_publishes > 0 {
            st.class("publish_while_not_connected");
        }
        st.sample(|| json!({"cfg": cfg_sig(&h.cfg), "ops": h.ops.len(), "persistent_accepts": m.persistent_accepts, "unmatched_acks": m.unmatched_acks, "resumes_with_non_empty_store": m.resumes_nonempty, "publishes_while_not_connected": m.offline_publishes}));
    }
    Ok(())
}

pub fn run(ctx: &Ctx) -> Report {
    let mut rep = Report::new(
        "histories of publishes QoS0/1/2 in all three statuses (offline publishing on/off), acknowledgements chosen by index (matching, wrong kind, unknown id, duplicate, v5 error codes), erase_stored_publish, closes and reconnects \
         (clean/persistent x session present or not, v5 Session Expiry in CONNECT and overridden in CONNACK), client and server roles, both versions, smaller Maximum Packet Size on resume; model = ordered list of accepted, unacknowledged messages. \
         non-trivial = a QoS>0 publish was accepted in a persistent session and the history has a non-matching ack, a resume with non-empty store or a publish while not connected",
    );
    let n = ctx.tier.pick(400_000, 2_000_000);
    let (st, v) = search(ctx, "c06.history", n, strategy, test);
    rep.absorb("histories", st, v, false);
    rep.assumptions.push("session persistence is derived from the CONNECT/CONNACK contents as in DESIGN.md appendix D; known finding D23 (CONNACK session present + Session Expiry 0) is excluded by construction and reported from its witness replay".into());
    rep.assumptions.push("publishes with an empty topic (alias use) are left to C13".into());
    rep
}

pub fn replay(check: &str, case: &serde_json::Value) -> Option<R> {
    if check != "c06.history" {
        return None;
    }
    let h: History = serde_json::from_value(case.clone()).ok()?;
    let mut st = Stats::default();
    Some(test(&h, &mut st))
}
