//! C18 — v5.0 property placement and multiplicity follow the specification table.

use crate::adapt;
use crate::ap::*;
use crate::engine::*;
use crate::ensure;
use crate::refcodec;
use crate::util::{catch, hex_trunc};
use proptest::prelude::*;
use serde::{Deserialize, Serialize};
use serde_json::json;

#[derive(Clone, Debug, Serialize, Deserialize)]
pub struct Cell {
    pub loc: Loc,
    pub props: Vec<Prop>,
}

/// A packet that is valid for `loc` and carries `props` there.
pub fn base_packet(loc: Loc, props: Vec<Prop>) -> AP {
    let v = V::V5;
    match loc {
        Loc::Connect => AP::Connect { v, clean: true, keep_alive: 10, client_id: "c".into(), will: None, user: None, pass: None, props },
        Loc::Will => AP::Connect {
            v,
            clean: true,
            keep_alive: 10,
            client_id: "c".into(),
            will: Some(Will { topic: "w".into(), payload: vec![1], qos: 1, retain: false, props }),
            user: None,
            pass: None,
            props: vec![],
        },
        Loc::Connack => AP::Connack { v, sp: false, code: 0, props },
        Loc::Publish => AP::Publish { v, dup: false, qos: 1, retain: false, topic: "t".into(), pid: Some(1), props, payload: vec![9] },
        Loc::Puback => AP::Ack { v, kind: AckKind::Puback, pid: 1, rc: Some(0), props: Some(props) },
        Loc::Pubrec => AP::Ack { v, kind: AckKind::Pubrec, pid: 1, rc: Some(0), props: Some(props) },
        Loc::Pubrel => AP::Ack { v, kind: AckKind::Pubrel, pid: 1, rc: Some(0), props: Some(props) },
        Loc::Pubcomp => AP::Ack { v, kind: AckKind::Pubcomp, pid: 1, rc: Some(0), props: Some(props) },
        Loc::Subscribe => AP::Subscribe { v, pid: 1, props, entries: vec![("a/b".into(), 1)] },
        Loc::Suback => AP::Suback { v, pid: 1, props, codes: vec![0] },
        Loc::Unsubscribe => AP::Unsubscribe { v, pid: 1, props, topics: vec!["a/b".into()] },
        Loc::Unsuback => AP::Unsuback { v, pid: 1, props, codes: vec![0] },
        Loc::Disconnect => AP::Disconnect { v, rc: Some(0), props: Some(props) },
        Loc::Auth => AP::Auth { rc: Some(0), props: Some(props) },
    }
}

/// The specification's verdict (table 2-4 + multiplicity + value rules).
pub fn spec_allows(loc: Loc, props: &[Prop]) -> bool {
    for p in props {
        let Some(spec) = prop_spec(p.id) else { return false };
        if !spec.locs.contains(&loc) {
            return false;
        }
        if !prop_value_ok(p) {
            return false;
        }
        // wire type must match the property
        let ty_ok = matches!(
            (&p.val, spec.ty),
            (PVal::U8(_), PT::Byte) | (PVal::U16(_), PT::U16) | (PVal::U32(_), PT::U32) | (PVal::Vbi(_), PT::Vbi) | (PVal::Str(_), PT::Str) | (PVal::Bin(_), PT::Bin) | (PVal::Pair(_, _), PT::Pair)
        );
        if !ty_ok {
            return false;
        }
        let n = props.iter().filter(|q| q.id == p.id).count();
        if n > 1 && !spec.multi.contains(&loc) {
            return false;
        }
    }
    true
}

fn boundary_values(spec: &PropSpec) -> Vec<PVal> {
    match spec.ty {
        PT::Byte => vec![PVal::U8(0), PVal::U8(1), PVal::U8(2), PVal::U8(255)],
        PT::U16 => vec![PVal::U16(0), PVal::U16(1), PVal::U16(65535)],
        PT::U32 => vec![PVal::U32(0), PVal::U32(1), PVal::U32(u32::MAX)],
        PT::Vbi => vec![PVal::Vbi(0), PVal::Vbi(1), PVal::Vbi(127), PVal::Vbi(128), PVal::Vbi(268_435_455), PVal::Vbi(268_435_456)],
        PT::Str => vec![PVal::Str(String::new()), PVal::Str("x".into())],
        PT::Bin => vec![PVal::Bin(vec![]), PVal::Bin(vec![0, 255])],
        PT::Pair => vec![PVal::Pair(String::new(), String::new()), PVal::Pair("k".into(), "v".into())],
    }
}

/// The complete table: 27 kinds x 14 locations x occurrences {1,2} x boundary values.
pub fn all_cells() -> Vec<Cell> {
    let mut out = Vec::new();
    for loc in ALL_LOCS {
        out.push(Cell { loc, props: vec![] });
        for spec in PROP_TABLE.iter() {
            let vals = boundary_values(spec);
            for (vi, val) in vals.iter().enumerate() {
                // shapes of the occurrence(s): one; two equal neighbours; two neighbours with different values; two
                // occurrences separated by a User Property (legal everywhere, so it never changes the verdict);
                // one occurrence behind / in front of a User Property
                let other = vals[(vi + 1) % vals.len()].clone();
                let p = |v: &PVal| Prop { id: spec.id, val: v.clone() };
                let user = || Prop { id: pid::USER_PROPERTY, val: PVal::Pair("k".into(), "v".into()) };
                let mut shapes: Vec<Vec<Prop>> = vec![vec![p(val)], vec![p(val), p(val)], vec![p(val), user(), p(val)], vec![user(), p(val)], vec![p(val), user()], vec![user(), p(val), user(), p(val)]];
                if other != *val {
                    shapes.push(vec![p(val), p(&other)]);
                    shapes.push(vec![p(val), user(), p(&other)]);
                }
                for shape in shapes {
                    let mut props = Vec::new();
                    // Authentication Data is only legal together with an Authentication Method (§3.1.2.11.10,
                    // §3.2.2.3.18, §3.15.2.2.3): supply one so that the cell tests placement, not that rule
                    if spec.id == pid::AUTHENTICATION_DATA {
                        props.push(Prop { id: pid::AUTHENTICATION_METHOD, val: PVal::Str("m".into()) });
                    }
                    props.extend(shape);
                    out.push(Cell { loc, props });
                }
            }
        }
    }
    out
}

pub fn test_cell(c: &Cell, st: &mut Stats) -> R {
    let ap = base_packet(c.loc, c.props.clone());
    let want = spec_allows(c.loc, &c.props);
    let sig = |path: &str| {
        // signature: location / path / the properties that decide the verdict (misplaced, repeated, bad value)
        let mut keys: Vec<String> = Vec::new();
        for p in &c.props {
            let Some(spec) = prop_spec(p.id) else { continue };
            let n = c.props.iter().filter(|q| q.id == p.id).count();
            let k = if !spec.locs.contains(&c.loc) {
                Some(format!("{}(misplaced)", spec.name))
            } else if !prop_value_ok(p) {
                Some(format!("{}(value)", spec.name))
            } else if n > 1 {
                Some(format!("{}(repeated)", spec.name))
            } else {
                None
            };
            if let Some(k) = k {
                if !keys.contains(&k) {
                    keys.push(k);
                }
            }
        }
        if keys.is_empty() {
            keys = c.props.iter().filter_map(|p| prop_spec(p.id).map(|s| s.name.to_string())).collect();
            keys.dedup();
        }
        keys.sort();
        format!("{:?}/{}/{}", c.loc, path, keys.join("+"))
    };
    // builder path
    let built = catch(|| adapt::to_lib::<u16>(&ap)).map_err(|pm| Fail::new("C18.builder_verdict", sig("builder_panic"), pm))?;
    let builder_ok = built.is_ok();
    // parser path (Vbi values beyond the encodable range have no conformant encoding: the reference writes 5 bytes)
    let bytes = refcodec::encode(&ap, 2);
    let (frames, rest) = refcodec::frame(&bytes);
    ensure!(rest == 0 && frames.len() == 1, "C18.parser_verdict", sig("reference"), "reference framing");
    let refcodec::Frame::Complete { first, body, .. } = &frames[0] else { unreachable!() };
    let parsed = catch(|| adapt::lib_parse::<u16>(V::V5, *first, body)).map_err(|pm| Fail::new("C18.parser_verdict", sig("parser_panic"), pm))?;
    let parser_ok = parsed.is_ok();
    let desc = || format!("{:?} with props {}", c.loc, props_brief(&c.props));
    ensure!(
        builder_ok == want,
        "C18.builder_verdict",
        sig("builder"),
        "{}: the specification {} it, the builder {} ({})",
        desc(),
        if want { "allows" } else { "forbids" },
        if builder_ok { "accepts" } else { "rejects" },
        built.as_ref().err().cloned().unwrap_or_default()
    );
    ensure!(
        parser_ok == want,
        "C18.parser_verdict",
        sig("parser"),
        "{}: the specification {} it, the parser {} ({}) bytes {}",
        desc(),
        if want { "allows" } else { "forbids" },
        if parser_ok { "accepts" } else { "rejects" },
        parsed.as_ref().err().cloned().unwrap_or_default(),
        hex_trunc(&bytes, 48)
    );
    ensure!(builder_ok == parser_ok, "C18.builder_ne_parser", sig("both"), "{}: builder {} parser {}", desc(), builder_ok, parser_ok);
    st.nontrivial(&(c.loc, &c.props));
    st.class(if want { "allowed" } else { "forbidden" });
    if c.props.len() == 2 && want {
        st.sample(|| json!({"location": format!("{:?}", c.loc), "props": props_brief(&c.props), "spec": "allowed", "builder": builder_ok, "parser": parser_ok}));
    } else if !want && st.samples.len() < 3 {
        st.sample(|| json!({"location": format!("{:?}", c.loc), "props": props_brief(&c.props), "spec": "forbidden", "builder": builder_ok, "parser": parser_ok}));
    }
    Ok(())
}

fn any_prop() -> BoxedStrategy<Prop> {
    let ids: Vec<u8> = PROP_TABLE.iter().map(|s| s.id).collect();
    proptest::sample::select(ids)
        .prop_flat_map(|id| {
            let spec = prop_spec(id).unwrap();
            let vals = boundary_values(spec);
            proptest::sample::select(vals).prop_map(move |val| Prop { id, val })
        })
        .boxed()
}

pub fn random_cell() -> BoxedStrategy<Cell> {
    (proptest::sample::select(ALL_LOCS.to_vec()), any::<bool>())
        .prop_flat_map(|(loc, legal_bias)| {
            let legal_ids: Vec<u8> = PROP_TABLE.iter().filter(|s| s.locs.contains(&loc)).map(|s| s.id).collect();
            let legal = proptest::sample::select(legal_ids).prop_flat_map(|id| crate::gen::prop_value_valid(id, false));
            let one = if legal_bias { prop_oneof![9 => legal, 1 => any_prop()].boxed() } else { any_prop() };
            proptest::collection::vec(one, 0..6).prop_map(move |mut props| {
                // keep the Authentication Data => Method rule out of the cell (it is not a placement rule)
                if props.iter().any(|p| p.id == pid::AUTHENTICATION_DATA) && !props.iter().any(|p| p.id == pid::AUTHENTICATION_METHOD) {
                    props.retain(|p| p.id != pid::AUTHENTICATION_DATA);
                }
                Cell { loc, props }
            })
        })
        .boxed()
}

pub fn run(ctx: &Ctx) -> Report {
    let mut rep = Report::new(
        "complete table: 27 property kinds x 14 property-carrying locations (CONNECT, will, CONNACK, PUBLISH, PUBACK, PUBREC, PUBREL, PUBCOMP, SUBSCRIBE, SUBACK, \
         UNSUBSCRIBE, UNSUBACK, DISCONNECT, AUTH) x occurrence shapes {one; two equal neighbours; two neighbours with different values; two separated by a User Property; one before/after a User Property} x boundary values, builder path and parser path (reference-encoded); \
         plus random multi-property sets; every cell is a distinct decision (non-trivial); oracle = table 2-4 of the specification transcribed in ap.rs",
    );
    let cells = all_cells();
    let (st, v) = enumerate(ctx, "c18.table", &cells, test_cell);
    rep.absorb("table", st, v, true);
    let n = ctx.tier.pick(200_000, 3_000_000);
    let (st, v) = search(ctx, "c18.random", n, random_cell, test_cell);
    rep.absorb("random_sets", st, v, false);
    rep.exhaustive = false;
    rep.assumptions.push("the code has 14 property-carrying locations (the property text counts 16)".into());
    rep.assumptions.push("Authentication Data is always accompanied by an Authentication Method (cross-property rule, not a placement rule)".into());
    rep
}

pub fn replay(check: &str, case: &serde_json::Value) -> Option<R> {
    if check != "c18.table" && check != "c18.random" {
        return None;
    }
    let c: Cell = serde_json::from_value(case.clone()).ok()?;
    let mut st = Stats::default();
    Some(test_cell(&c, &mut st))
}
