//! C20 — value allocator behaves as a set of free integers with smallest-first allocation.

use crate::engine::*;
use crate::ensure;
use crate::util::catch;
use mqtt_protocol_core::mqtt::ValueAllocator;
use num_traits::{NumCast, PrimInt};
use proptest::prelude::*;
use serde::{Deserialize, Serialize};
use serde_json::json;
use std::collections::BTreeSet;
use std::fmt::Debug;

/// Model: the set of USED integers inside [lo, hi] (free = range minus used).
#[derive(Clone, Debug)]
pub struct Model {
    pub lo: u64,
    pub hi: u64,
    pub used: BTreeSet<u64>,
}

impl Model {
    pub fn new(lo: u64, hi: u64) -> Model {
        Model { lo, hi, used: BTreeSet::new() }
    }
    pub fn in_range(&self, v: u64) -> bool {
        self.lo <= v && v <= self.hi
    }
    pub fn is_free(&self, v: u64) -> bool {
        self.in_range(v) && !self.used.contains(&v)
    }
    pub fn first_free(&self) -> Option<u64> {
        let mut c = self.lo;
        for u in self.used.iter() {
            if *u > c {
                break;
            }
            if *u == c {
                if c == self.hi {
                    return None;
                }
                c += 1;
            }
        }
        if c <= self.hi {
            Some(c)
        } else {
            None
        }
    }
    /// maximal runs of free integers
    pub fn free_runs(&self) -> Vec<(u64, u64)> {
        let mut out = Vec::new();
        let mut start = self.lo;
        let mut done = false;
        for u in self.used.iter() {
            if *u > start {
                out.push((start, *u - 1));
            }
            if *u == self.hi {
                done = true;
                break;
            }
            start = *u + 1;
        }
        if !done && start <= self.hi {
            out.push((start, self.hi));
        }
        out
    }
}

#[derive(Clone, Copy, Debug, PartialEq, Eq, Serialize, Deserialize)]
pub enum Op {
    Allocate,
    Use(u64),
    Dealloc(u64),
    Clear,
}

fn cast<T: PrimInt>(v: u64) -> Option<T> {
    <T as NumCast>::from(v)
}

/// Apply one op to allocator and model, compare the answer, then check every query and the representation.
pub fn step<T: PrimInt + Debug>(a: &mut ValueAllocator<T>, m: &mut Model, op: Op, probes: &[u64], sig: &str) -> R {
    let tmax = T::max_value().to_u64().unwrap();
    match op {
        Op::Allocate => {
            let want = m.first_free();
            let got = catch(|| a.allocate()).map_err(|p| Fail::new("C20.panic", format!("{sig}/allocate"), p))?;
            let got64 = got.map(|x| x.to_u64().unwrap());
            ensure!(got64 == want, "C20.answer_ne_model", format!("{sig}/allocate"), "allocate() returned {:?}, smallest free value is {:?}", got64, want);
            if let Some(v) = want {
                m.used.insert(v);
            }
        }
        Op::Use(v) => {
            let want = m.is_free(v);
            if v <= tmax {
                let tv: T = cast(v).unwrap();
                let got = catch(|| a.use_value(tv)).map_err(|p| Fail::new("C20.panic", format!("{sig}/use_value"), p))?;
                ensure!(got == want, "C20.answer_ne_model", format!("{sig}/use_value"), "use_value({}) returned {}, free in the model: {}", v, got, want);
                if want {
                    m.used.insert(v);
                }
            }
        }
        Op::Dealloc(v) => {
            // out-of-range deallocate is excluded (documented assert)
            if m.in_range(v) {
                let tv: T = cast(v).unwrap();
                let where_ = if m.used.contains(&v) { "used" } else { "already_free" };
                let at = if v == tmax { "type_max" } else { "interior" };
                catch(|| a.deallocate(tv)).map_err(|p| Fail::new("C20.panic", format!("{sig}/deallocate/{where_}/{at}"), p))?;
                m.used.remove(&v);
            }
        }
        Op::Clear => {
            catch(|| a.clear()).map_err(|p| Fail::new("C20.panic", format!("{sig}/clear"), p))?;
            m.used.clear();
        }
    }
    // queries
    let fv = catch(|| a.first_vacant()).map_err(|p| Fail::new("C20.panic", format!("{sig}/first_vacant"), p))?;
    let fv = fv.map(|x| x.to_u64().unwrap());
    ensure!(fv == m.first_free(), "C20.answer_ne_model", format!("{sig}/first_vacant"), "first_vacant()={:?}, model {:?} after {:?}", fv, m.first_free(), op);
    let runs = m.free_runs();
    let ic = a.interval_count();
    ensure!(ic == runs.len(), "C20.answer_ne_model", format!("{sig}/interval_count"), "interval_count()={}, the free set has {} maximal runs {:?} after {:?}", ic, runs.len(), runs, op);
    let iv: Vec<(u64, u64)> = a.verif_intervals().into_iter().map(|(l, h)| (l.to_u64().unwrap(), h.to_u64().unwrap())).collect();
    ensure!(iv == runs, "C20.repr_invariant", format!("{sig}/intervals"), "internal intervals {:?} are not the sorted, disjoint, maximally merged runs {:?} after {:?}", iv, runs, op);
    for &p in probes {
        if p <= tmax {
            let tp: T = cast(p).unwrap();
            let got = catch(|| a.is_used(tp)).map_err(|pm| Fail::new("C20.panic", format!("{sig}/is_used"), pm))?;
            let want = m.in_range(p) && m.used.contains(&p);
            let cls = if m.in_range(p) { "in_range" } else { "out_of_range" };
            ensure!(got == want, "C20.answer_ne_model", format!("{sig}/is_used/{cls}"), "is_used({}) = {}, model says {} (range {}..={}) after {:?}", p, got, want, m.lo, m.hi, op);
        }
    }
    Ok(())
}

#[derive(Clone, Debug, Serialize, Deserialize)]
pub struct SeqCase {
    /// "u8" | "u16" | "u32"
    pub ty: String,
    pub lo: u64,
    pub hi: u64,
    pub ops: Vec<Op>,
}

fn probes_for(lo: u64, hi: u64, extra: &[u64]) -> Vec<u64> {
    let mut p = vec![lo, hi, lo.saturating_sub(1), hi.saturating_add(1), lo + (hi - lo) / 2, 0];
    p.extend_from_slice(extra);
    p.sort_unstable();
    p.dedup();
    p
}

pub fn run_seq<T: PrimInt + Debug>(c: &SeqCase, st: &mut Stats) -> R {
    let sig = c.ty.as_str();
    let lo: T = cast(c.lo).unwrap();
    let hi: T = cast(c.hi).unwrap();
    let mut a = ValueAllocator::new(lo, hi);
    let mut m = Model::new(c.lo, c.hi);
    let mut merged = false;
    let mut split = false;
    for op in &c.ops {
        let before = m.free_runs().len();
        let extra: Vec<u64> = match op {
            Op::Use(v) | Op::Dealloc(v) => vec![*v, v.saturating_sub(1), v.saturating_add(1)],
            _ => vec![],
        };
        step(&mut a, &mut m, *op, &probes_for(c.lo, c.hi, &extra), sig)?;
        let after = m.free_runs().len();
        if after < before {
            merged = true;
        }
        if after > before {
            split = true;
        }
    }
    if merged && split {
        st.nontrivial(&(c.ty.as_str(), c.lo, c.hi, format!("{:?}", c.ops)));
        st.class("split_and_merge");
        st.sample(|| json!({"type": c.ty, "range": [c.lo, c.hi], "ops": format!("{:?}", &c.ops[..c.ops.len().min(12)]), "n_ops": c.ops.len()}));
    }
    if c.lo == c.hi {
        st.class("single_value_range");
    }
    if c.hi == T::max_value().to_u64().unwrap() {
        st.class("range_ends_at_type_max");
    }
    Ok(())
}

pub fn test_seq(c: &SeqCase, st: &mut Stats) -> R {
    match c.ty.as_str() {
        "u8" => run_seq::<u8>(c, st),
        "u16" => run_seq::<u16>(c, st),
        "u32" => run_seq::<u32>(c, st),
        _ => Ok(()),
    }
}

/// value selectors resolved against (lo, hi) at generation time, biased to the ends and to neighbours
fn value_in(lo: u64, hi: u64) -> BoxedStrategy<u64> {
    let span = hi - lo;
    prop_oneof![
        3 => (0u64..=3).prop_map(move |k| lo + k.min(span)),
        3 => (0u64..=3).prop_map(move |k| hi - k.min(span)),
        2 => (0u64..=15).prop_map(move |k| lo + k.min(span)),
        1 => (0u64..=u32::MAX as u64).prop_map(move |r| lo + r % (span + 1)),
    ]
    .boxed()
}

fn op_in(lo: u64, hi: u64) -> BoxedStrategy<Op> {
    prop_oneof![
        4 => Just(Op::Allocate),
        4 => value_in(lo, hi).prop_map(Op::Use),
        5 => value_in(lo, hi).prop_map(Op::Dealloc),
        // out-of-range reservations must simply fail
        1 => prop_oneof![Just(lo.saturating_sub(1)), Just(hi.saturating_add(1))].prop_map(Op::Use),
        1 => Just(Op::Clear),
    ]
    .boxed()
}

pub fn seq_strategy() -> BoxedStrategy<SeqCase> {
    let ranges: Vec<(&'static str, u64, u64)> = vec![
        ("u8", 0, 0),
        ("u8", 255, 255),
        ("u8", 0, 255),
        ("u8", 1, 255),
        ("u8", 250, 255),
        ("u16", 0, 0),
        ("u16", 65535, 65535),
        ("u16", 0, 65535),
        ("u16", 1, 65535),
        ("u16", 1, 10),
        ("u16", 65530, 65535),
        ("u32", 1, u32::MAX as u64),
        ("u32", 0, u32::MAX as u64),
        ("u32", u32::MAX as u64, u32::MAX as u64),
        ("u32", u32::MAX as u64 - 5, u32::MAX as u64),
    ];
    proptest::sample::select(ranges)
        .prop_flat_map(|(ty, lo, hi)| {
            proptest::collection::vec(op_in(lo, hi), 1..60).prop_map(move |ops| SeqCase { ty: ty.to_string(), lo, hi, ops })
        })
        .boxed()
}

/// Exhaustive depth-first enumeration of all op sequences up to `depth` over one small range,
/// sharing prefixes through Clone. Returns the number of sequences (leaves + inner nodes) visited.
fn dfs<T: PrimInt + Debug>(
    a: &ValueAllocator<T>,
    m: &Model,
    ops: &[Op],
    probes: &[u64],
    depth: usize,
    trail: &mut Vec<Op>,
    st: &mut Stats,
    sig: &str,
) -> Result<(), (Fail, Vec<Op>)> {
    if depth == 0 {
        return Ok(());
    }
    for op in ops {
        let mut a2 = a.clone();
        let mut m2 = m.clone();
        trail.push(*op);
        st.eval();
        if let Err(f) = step(&mut a2, &mut m2, *op, probes, sig) {
            return Err((f, trail.clone()));
        }
        if trail.len() <= 5 && m2.free_runs().len() >= 2 {
            st.nontrivial(&(sig, m.lo, m.hi, format!("{trail:?}")));
        }
        dfs(&a2, &m2, ops, probes, depth - 1, trail, st, sig)?;
        trail.pop();
    }
    Ok(())
}

#[derive(Clone, Debug, Serialize, Deserialize)]
pub struct SmallRange {
    pub ty: String,
    pub lo: u64,
    pub hi: u64,
    pub depth: usize,
}

fn exhaustive_one<T: PrimInt + Debug>(r: &SmallRange, st: &mut Stats, ctx_known: &dyn Fn(&Fail) -> bool) -> Result<(), (Fail, Vec<Op>)> {
    let tmax = T::max_value().to_u64().unwrap();
    let mut ops = vec![Op::Allocate, Op::Clear];
    for v in r.lo..=r.hi {
        ops.push(Op::Use(v));
        ops.push(Op::Dealloc(v));
    }
    if r.lo > 0 {
        ops.push(Op::Use(r.lo - 1));
    }
    if r.hi < tmax {
        ops.push(Op::Use(r.hi + 1));
    }
    // a known open finding on one op would stop the enumeration: drop ops whose first use fails in a known way
    let probes = probes_for(r.lo, r.hi, &[]);
    let a = ValueAllocator::new(cast::<T>(r.lo).unwrap(), cast::<T>(r.hi).unwrap());
    let m = Model::new(r.lo, r.hi);
    let _ = ctx_known;
    // iterative deepening: a failure is reported with a shortest failing sequence
    for d in 1..r.depth {
        let mut scratch = Stats::default();
        let mut trail = Vec::new();
        dfs(&a, &m, &ops, &probes, d, &mut trail, &mut scratch, &r.ty)?;
    }
    let mut trail = Vec::new();
    dfs(&a, &m, &ops, &probes, r.depth, &mut trail, st, &r.ty)
}

pub fn test_small(r: &SmallRange, st: &mut Stats) -> R {
    let res = match r.ty.as_str() {
        "u8" => exhaustive_one::<u8>(r, st, &|_| false),
        "u16" => exhaustive_one::<u16>(r, st, &|_| false),
        "u32" => exhaustive_one::<u32>(r, st, &|_| false),
        _ => Ok(()),
    };
    // the engine already counted one evaluation for the range itself
    match res {
        Ok(()) => Ok(()),
        Err((f, trail)) => Err(Fail { detail: format!("{} | range {}..={} ({}) minimal-prefix sequence {:?}", f.detail, r.lo, r.hi, r.ty, trail), ..f }),
    }
}

pub fn small_ranges(depth: usize) -> Vec<SmallRange> {
    let mut v = Vec::new();
    for (ty, tmax) in [("u8", 255u64), ("u16", 65535), ("u32", u32::MAX as u64)] {
        for lo in [0u64, 1, tmax - 3] {
            for w in 0..=3u64 {
                let hi = lo + w;
                if hi <= tmax {
                    v.push(SmallRange { ty: ty.to_string(), lo, hi, depth });
                }
            }
        }
    }
    v
}

/// PacketIdManager and TopicAliasSend::get_lru_alias sit on the allocator: spot checks of the composed behaviour
fn on_top(st: &mut Stats) -> R {
    use mqtt_protocol_core::mqtt::connection::PacketIdManager;
    use mqtt_protocol_core::mqtt::packet::TopicAliasSend;
    st.eval();
    let r = catch(|| {
        let mut pm = PacketIdManager::<u16>::new();
        let a = pm.acquire_unique_id().ok();
        let b = pm.acquire_unique_id().ok();
        let reg3 = pm.register_id(3).is_ok();
        let reg3b = pm.register_id(3).is_ok();
        let c = pm.acquire_unique_id().ok();
        pm.release_id(1);
        let d = pm.acquire_unique_id().ok();
        (a, b, reg3, reg3b, c, d, pm.is_used_id(2), pm.is_used_id(5))
    })
    .map_err(|p| Fail::new("C20.panic", "PacketIdManager", p))?;
    ensure!(r == (Some(1), Some(2), true, false, Some(4), Some(1), true, false), "C20.answer_ne_model", "PacketIdManager", "PacketIdManager sequence gave {:?}", r);
    st.nontrivial("PacketIdManager");
    st.eval();
    let r = catch(|| {
        let mut t = TopicAliasSend::new(3);
        let l0 = t.get_lru_alias();
        t.insert_or_update("a", 1);
        let l1 = t.get_lru_alias();
        t.insert_or_update("b", 2);
        t.insert_or_update("c", 3);
        let l2 = t.get_lru_alias(); // full: least recently used = 1
        let _ = t.get(1); // touch 1
        let l3 = t.get_lru_alias(); // now 2
        (l0, l1, l2, l3)
    })
    .map_err(|p| Fail::new("C20.panic", "TopicAliasSend", p))?;
    ensure!(r == (1, 2, 1, 2), "C20.answer_ne_model", "TopicAliasSend::get_lru_alias", "get_lru_alias sequence gave {:?}", r);
    st.nontrivial("TopicAliasSend");
    Ok(())
}

pub fn run(ctx: &Ctx) -> Report {
    let mut rep = Report::new(
        "(1) exhaustive: every sequence of <= d ops from {allocate, clear, use_value(v), deallocate(v) for every v in range, use_value just outside} \
         over every range [lo,hi] with hi-lo<=3, lo in {0,1,type max-3}, types u8/u16/u32, all queries and the interval representation checked after every step; \
         (2) random sequences of <= 60 ops over extreme ranges; non-trivial = the free set had >= 2 runs (exhaustive) / the sequence both split and merged runs (random); distinct by op sequence",
    );
    let depth = ctx.tier.pick(6, 7) as usize;
    let ranges = small_ranges(depth);
    let (st, v) = enumerate(ctx, "c20.small", &ranges, test_small);
    rep.absorb("exhaustive_small_ranges", st, v, true);
    let n = ctx.tier.pick(200_000, 3_000_000);
    let (st, v) = search(ctx, "c20.seq", n, seq_strategy, test_seq);
    rep.absorb("random_sequences", st, v, false);
    let mut st = Stats::default();
    let r = on_top(&mut st);
    let v = r.err().map(|f| Violation { check: "c20.ontop".into(), fail: f, case: serde_json::Value::Null, seed: ctx.seed });
    rep.absorb("on_top", st, v, true);
    rep.exhaustive = false;
    rep.assumptions.push("deallocate() of a value outside the configured range is excluded (documented assert)".into());
    rep.assumptions.push(format!("exhaustive depth {depth}"));
    rep
}

pub fn replay(check: &str, case: &serde_json::Value) -> Option<R> {
    let mut st = Stats::default();
    match check {
        "c20.small" => {
            let c: SmallRange = serde_json::from_value(case.clone()).ok()?;
            Some(test_small(&c, &mut st))
        }
        "c20.seq" => {
            let c: SeqCase = serde_json::from_value(case.clone()).ok()?;
            Some(test_seq(&c, &mut st))
        }
        "c20.ontop" => Some(on_top(&mut st)),
        _ => None,
    }
}
