//! C19 — close requests are ordered after the last packet to flush.

use crate::ap::*;
use crate::conn::*;
use crate::engine::*;
use crate::hist::*;
use crate::scn::*;
use serde_json::json;

pub struct CloseOrder {
    pub lists: u64,
    pub with_close: u64,
    pub paths: std::collections::BTreeMap<String, u64>,
}

impl CloseOrder {
    pub fn new() -> CloseOrder {
        CloseOrder { lists: 0, with_close: 0, paths: Default::default() }
    }
    fn shape(list: &[NEvent]) -> String {
        let mut s = Vec::new();
        for e in list {
            let t = match e {
                NEvent::Send { ap, .. } => format!("Send({})", ap.kind_name()),
                NEvent::Close => "Close".to_string(),
                NEvent::Error(_) => "Error".to_string(),
                NEvent::TimerCancel(_) => "Cancel".to_string(),
                NEvent::TimerReset { .. } => "Reset".to_string(),
                NEvent::Recv(_) => "Recv".to_string(),
                NEvent::Released(_) => "Released".to_string(),
            };
            if s.last() != Some(&t) {
                s.push(t);
            }
        }
        s.join(",")
    }
    fn check_list(&mut self, sig: &str, list: &[NEvent], timeout_on_established: bool) -> R {
        self.lists += 1;
        let close_at = list.iter().position(|e| matches!(e, NEvent::Close));
        if let Some(ci) = close_at {
            self.with_close += 1;
            *self.paths.entry(Self::shape(list)).or_insert(0) += 1;
            if let Some(si) = list.iter().rposition(|e| matches!(e, NEvent::Send { .. })) {
                if ci < si {
                    return Err(fail("C19.close_before_send", sig, format!("RequestClose at index {ci} precedes RequestSendPacket at index {si}: {}", brief_list(list))));
                }
            }
        }
        for e in list {
            if let NEvent::Send { ap, .. } = e {
                match ap {
                    AP::Disconnect { .. } if close_at.is_none() => {
                        return Err(fail("C19.disconnect_without_close", sig, format!("a DISCONNECT is sent without a close request in the same list: {}", brief_list(list))));
                    }
                    AP::Connack { code, .. } if *code != 0 && close_at.is_none() => {
                        return Err(fail("C19.failed_connack_without_close", sig, format!("a refusing CONNACK is sent without a close request in the same list: {}", brief_list(list))));
                    }
                    _ => {}
                }
            }
        }
        if timeout_on_established && close_at.is_none() {
            return Err(fail("C19.timeout_without_close", sig, format!("keep-alive timeout on an established connection produced no close request: {}", brief_list(list))));
        }
        Ok(())
    }
}

impl Observer for CloseOrder {
    fn on_step(&mut self, w: &World, pre: &Tracker, _pa: &App, st: &Step) -> R {
        let v = w.t.v.map(|v| v.name()).unwrap_or("undetermined");
        match &st.call {
            Call::Recv { .. } => {
                for (_, list) in &st.calls {
                    self.check_list(&format!("recv/{v}"), list, false)?;
                }
            }
            Call::Timer(k) => {
                // "established": connected and the library has not already asked for the close
                let timeout = matches!(k, TK::PingreqRecv | TK::PingrespRecv) && pre.status == St::Connected && !pre.close_requested;
                let small = if pre.mps_send.map(|m| m < 4).unwrap_or(false) { "/peer_max_packet_size_lt_4" } else { "" };
                self.check_list(&format!("timer/{k:?}/{v}{small}"), &st.events, timeout)?;
            }
            Call::Send(ap) => self.check_list(&format!("send/{}/{v}", ap.kind_name()), &st.events, false)?,
            Call::Closed => self.check_list("notify_closed", &st.events, false)?,
            _ => {
                if !st.events.is_empty() {
                    self.check_list("other", &st.events, false)?
                }
            }
        }
        Ok(())
    }
}

pub fn profile() -> Profile {
    let mut p = Profile::general();
    p.hostile = 3;
    p.timers = 6;
    p.rehandshake = 2;
    p
}

/// hostile peer ops shared with C05
pub fn hostile_ops() -> proptest::strategy::BoxedStrategy<Op> {
    crate::checks::c05::hostile_op()
}

pub fn test(h: &History, st: &mut Stats) -> R {
    let mut mon = CloseOrder::new();
    let (_w, out, r) = run_history_mode(h, &mut [&mut mon], false);
    count_outcome(&out, st);
    r?;
    st.count("event_lists", mon.lists);
    st.count("event_lists_with_close", mon.with_close);
    for (k, n) in &mon.paths {
        st.class(&format!("close_path: {k}"));
        let _ = n;
    }
    if mon.with_close > 0 {
        st.nontrivial(&(h.cfg, &h.ops));
        st.sample(|| json!({"cfg": cfg_sig(&h.cfg), "ops": h.ops.len(), "lists_with_close": mon.with_close, "paths": mon.paths.keys().cloned().collect::<Vec<_>>()}));
    }
    Ok(())
}

pub fn run(ctx: &Ctx) -> Report {
    let mut rep = Report::new(
        "random connection histories (all roles, versions incl. undetermined, options, error/timeout/handshake-failure paths, hostile peer frames); \
         every returned event list is checked; non-trivial = the history produced at least one list containing RequestClose; classes = shape of the list that closed",
    );
    let n = ctx.tier.pick(400_000, 2_000_000);
    let (st, v) = search(ctx, "c19.history", n, || history(profile(), true, hostile_ops()), test);
    rep.absorb("histories", st, v, false);
    rep.assumptions.push("a list is one returned Vec<Event>: each recv call separately".into());
    rep
}

pub fn replay(check: &str, case: &serde_json::Value) -> Option<R> {
    if check != "c19.history" {
        return None;
    }
    let h: History = serde_json::from_value(case.clone()).ok()?;
    let mut st = Stats::default();
    Some(test(&h, &mut st))
}
