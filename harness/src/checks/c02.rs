//! C02 — codec round trip: every buildable packet survives encode -> parse unchanged.

use crate::adapt::{self, Pid};
use crate::ap::*;
use crate::engine::*;
use crate::ensure;
use crate::gen;
use crate::refcodec;
use crate::util::{catch, h64, hex_trunc};
use mqtt_protocol_core::mqtt::packet::{GenericPacket, GenericPacketTrait, GenericStorePacket};
use proptest::prelude::*;
use serde::{Deserialize, Serialize};
use serde_json::json;

#[derive(Clone, Debug, Serialize, Deserialize)]
pub struct PacketCase {
    pub idw: usize,
    pub ap: AP,
}

pub fn case_strategy(o: gen::GenOpts) -> BoxedStrategy<PacketCase> {
    (gen::version(), prop_oneof![3 => Just(2usize), 1 => Just(4usize)])
        .prop_flat_map(move |(v, idw)| gen::any_packet(v, idw, o).prop_map(move |ap| PacketCase { idw, ap }))
        .boxed()
}

fn concat_bufs<T: GenericPacketTrait>(p: &T) -> Vec<u8> {
    let mut out = Vec::new();
    for s in p.to_buffers() {
        out.extend_from_slice(&s);
    }
    out
}

/// The four agreement clauses on an already built library packet.
pub fn agree<P: Pid>(p: &GenericPacket<P>, v: V, what: &str) -> R {
    let sig = format!("{}/{}", v.name(), what);
    let bytes = p.to_continuous_buffer();
    ensure!(p.size() == bytes.len(), "C02.size_ne_len", &sig, "size()={} but serialises to {} bytes: {}", p.size(), bytes.len(), hex_trunc(&bytes, 48));
    let (frames, rest) = refcodec::frame(&bytes);
    ensure!(
        rest == 0 && frames.len() == 1,
        "C02.rl_ne_size",
        &sig,
        "Remaining Length on the wire does not delimit the serialisation: {} frame(s), {} trailing bytes: {}",
        frames.len(),
        rest,
        hex_trunc(&bytes, 48)
    );
    let (first, body) = match &frames[0] {
        refcodec::Frame::Complete { first, body, total } => {
            ensure!(*total == bytes.len(), "C02.rl_ne_size", &sig, "frame total {} != {}", total, bytes.len());
            (*first, body.clone())
        }
        refcodec::Frame::BadLength => {
            return Err(Fail::new("C02.rl_ne_size", &sig, "Remaining Length longer than 4 bytes"));
        }
    };
    let vect = concat_bufs(p);
    ensure!(vect == bytes, "C02.vectored_ne_contiguous", &sig, "to_buffers() concat {} != to_continuous_buffer() {}", hex_trunc(&vect, 48), hex_trunc(&bytes, 48));
    match adapt::lib_parse::<P>(v, first, &body) {
        Ok((q, consumed)) => {
            ensure!(&q == p, "C02.reparse_ne", &sig, "parse(serialise(p)) != p: p={} reparsed={}", p, q);
            ensure!(consumed == body.len(), "C02.consumed_ne_body", &sig, "consumed {} of a {}-byte body", consumed, body.len());
        }
        Err(e) => {
            return Err(Fail::new("C02.reparse_ne", &sig, format!("own serialisation rejected by parse: {e}: {}", hex_trunc(&bytes, 64))));
        }
    }
    Ok(())
}

fn store_agree<P: Pid>(p: &GenericPacket<P>, v: V) -> R {
    let sp: Option<GenericStorePacket<P>> = match p.clone() {
        GenericPacket::V3_1_1Publish(x) => x.try_into().ok(),
        GenericPacket::V5_0Publish(x) => x.try_into().ok(),
        GenericPacket::V3_1_1Pubrel(x) => x.try_into().ok(),
        GenericPacket::V5_0Pubrel(x) => x.try_into().ok(),
        _ => None,
    };
    if let Some(sp) = sp {
        let sig = format!("{}/store", v.name());
        let a = sp.to_continuous_buffer();
        let b = p.to_continuous_buffer();
        ensure!(a == b && sp.size() == b.len(), "C02.size_ne_len", &sig, "store packet serialisation differs");
        let back: GenericPacket<P> = sp.clone().into();
        ensure!(&back == p, "C02.reparse_ne", &sig, "store packet -> packet changed the value");
        let mut vect = Vec::new();
        for s in sp.to_buffers() {
            vect.extend_from_slice(&s);
        }
        ensure!(vect == b, "C02.vectored_ne_contiguous", &sig, "store packet to_buffers differs");
    }
    Ok(())
}

/// v5 PUBLISH rewrite helpers recompute the cached lengths: the clauses must hold again.
fn rewrites<P: Pid>(p: &GenericPacket<P>, st: &mut Stats) -> R {
    if let GenericPacket::V5_0Publish(pb) = p {
        let v = V::V5;
        let has_alias = adapt::from_lib(p).prop_u16(pid::TOPIC_ALIAS).is_some();
        st.class("rewrite_helpers_exercised");
        agree::<P>(&pb.clone().set_dup(!pb.dup()).into(), v, "rewrite/set_dup")?;
        agree::<P>(&pb.clone().add_topic_alias(7).into(), v, "rewrite/add_topic_alias")?;
        agree::<P>(&pb.clone().remove_topic_add_topic_alias(65535).into(), v, "rewrite/remove_topic_add_topic_alias")?;
        if !pb.topic_name().is_empty() || has_alias {
            // removing the alias from an empty-topic packet would leave an unsendable packet: only the
            // connection does that together with restoring the topic
            if !pb.topic_name().is_empty() {
                agree::<P>(&pb.clone().remove_topic_alias().into(), v, "rewrite/remove_topic_alias")?;
            }
        }
        if pb.topic_name().is_empty() {
            if let Ok(q) = pb.clone().remove_topic_alias_add_topic("restored/topic".to_string()) {
                agree::<P>(&q.into(), v, "rewrite/remove_topic_alias_add_topic")?;
            }
            if let Ok(q) = pb.clone().add_extracted_topic_name("extracted/topic") {
                // topic_name_extracted is not part of the wire image: compare bytes-level clauses only
                let gp: GenericPacket<P> = q.into();
                let bytes = gp.to_continuous_buffer();
                let sig = "v5.0/rewrite/add_extracted_topic_name";
                ensure!(gp.size() == bytes.len(), "C02.rewrite_lengths", sig, "size()={} len={}", gp.size(), bytes.len());
                let (frames, rest) = refcodec::frame(&bytes);
                ensure!(rest == 0 && frames.len() == 1, "C02.rewrite_lengths", sig, "Remaining Length wrong after add_extracted_topic_name");
            }
        }
    }
    Ok(())
}

pub fn check_one<P: Pid>(c: &PacketCase, st: &mut Stats) -> R {
    let v = c.ap.version();
    let built = catch(|| adapt::to_lib::<P>(&c.ap));
    let p = match built {
        Err(pm) => return Err(Fail::new("C02.reparse_ne", format!("{}/builder_panic", v.name()), pm)),
        Ok(Err(_e)) => {
            // the generator aims only at what builders accept; count and skip
            st.class("rejected_by_builder");
            return Ok(());
        }
        Ok(Ok(p)) => p,
    };
    st.class(&format!("{}/{}", v.name(), c.ap.kind_name()));
    let r = catch(|| {
        agree::<P>(&p, v, c.ap.kind_name())?;
        store_agree::<P>(&p, v)?;
        rewrites::<P>(&p, st)
    });
    match r {
        Err(pm) => return Err(Fail::new("C02.reparse_ne", format!("{}/{}/panic", v.name(), c.ap.kind_name()), pm)),
        Ok(r) => r?,
    }
    if gen::packet_nontrivial(&c.ap) {
        st.nontrivial_hash(h64(&p.to_continuous_buffer()));
        st.class("nontrivial");
        if c.idw == 4 {
            st.class("idw4");
        }
        st.sample(|| json!({"idw": c.idw, "packet": c.ap.brief(), "bytes": hex_trunc(&p.to_continuous_buffer(), 40)}));
    }
    Ok(())
}

/// Builder abuse: one structural rule of the kind is broken in an otherwise valid abstract packet (identifier 0, identifier on a
/// QoS 0 PUBLISH, none on QoS 1/2, empty or wildcard topic name, empty entry / code lists). The builders are expected to refuse;
/// C02 quantifies over whatever they accept, so an accepted one must round-trip like any other packet.
pub fn abuse(ap: &AP, k: u8) -> Option<AP> {
    let mut a = ap.clone();
    match &mut a {
        AP::Publish { qos, pid, topic, props, .. } => match k % 6 {
            0 => {
                *qos = 0;
                *pid = Some(1);
            }
            1 => {
                *qos = 1 + (k / 6) % 2;
                *pid = None;
            }
            2 => {
                *qos = 1 + (k / 6) % 2;
                *pid = Some(0);
            }
            3 => {
                *topic = String::new();
                props.retain(|p| p.id != pid::TOPIC_ALIAS);
            }
            4 => *topic = "a/#".into(),
            _ => *topic = "+/b".into(),
        },
        AP::Ack { pid, .. } => *pid = 0,
        AP::Subscribe { pid, entries, .. } => {
            if k % 2 == 0 {
                *pid = 0
            } else {
                entries.clear()
            }
        }
        AP::Unsubscribe { pid, topics, .. } => {
            if k % 2 == 0 {
                *pid = 0
            } else {
                topics.clear()
            }
        }
        AP::Suback { pid, codes, .. } => {
            if k % 2 == 0 {
                *pid = 0
            } else {
                codes.clear()
            }
        }
        AP::Unsuback { pid, codes, v, .. } => {
            if k % 2 == 0 || *v == V::V311 {
                *pid = 0
            } else {
                codes.clear()
            }
        }
        _ => return None,
    }
    Some(a)
}

pub fn abuse_strategy(o: gen::GenOpts) -> BoxedStrategy<PacketCase> {
    (case_strategy(o), any::<u8>()).prop_filter_map("kind without a structural rule to break", |(c, k)| abuse(&c.ap, k).map(|ap| PacketCase { idw: c.idw, ap })).boxed()
}

pub fn test_abuse(c: &PacketCase, st: &mut Stats) -> R {
    let before = st.classes.get("rejected_by_builder").copied().unwrap_or(0);
    let r = test(c, st);
    let refused = st.classes.get("rejected_by_builder").copied().unwrap_or(0) > before;
    st.class(if refused { "abuse_refused_by_builder" } else { "abuse_accepted_by_builder" });
    if !refused {
        st.nontrivial(&(c.idw, &c.ap));
    }
    r
}

pub fn test(c: &PacketCase, st: &mut Stats) -> R {
    match c.idw {
        2 => check_one::<u16>(c, st),
        4 => check_one::<u32>(c, st),
        _ => Ok(()),
    }
}

pub fn run(ctx: &Ctx) -> Report {
    let mut rep = Report::new(
        "random abstract packets of all 29 kinds x {u16,u32} ids built through the public builders; \
         non-trivial = has an optional field, a property or a boundary length; distinct by hash of the encoded bytes",
    );
    let o = gen::GenOpts { big: true, beyond_spec: true };
    let n = ctx.tier.pick(400_000, 3_000_000);
    let (st, v) = search(ctx, "c02.roundtrip", n, || case_strategy(o), test);
    rep.absorb("roundtrip", st, v, false);
    // whatever the builders accept beyond the well-formed domain must round-trip too
    let small = gen::GenOpts { big: false, beyond_spec: true };
    let n2 = ctx.tier.pick(100_000, 1_000_000);
    let (st, v) = search(ctx, "c02.abuse", n2, move || abuse_strategy(small), test_abuse);
    rep.absorb("builder_abuse", st, v, false);
    let feats: Vec<&str> = [
        #[cfg(feature = "sso-lv20")]
        "sso-lv20",
        #[cfg(feature = "sso-min-32bit")]
        "sso-min-32bit",
        #[cfg(feature = "sso-min-64bit")]
        "sso-min-64bit",
        #[cfg(feature = "sso-lv10")]
        "sso-lv10",
    ]
    .to_vec();
    rep.assumptions.push(format!("library built with features: verif-hooks {:?}", feats));
    rep.assumptions.push("PartialEq of the library packets is the equality the statement means".into());
    rep
}

pub fn replay(check: &str, case: &serde_json::Value) -> Option<R> {
    if check != "c02.roundtrip" && check != "c02.abuse" {
        return None;
    }
    let c: PacketCase = serde_json::from_value(case.clone()).ok()?;
    let mut st = Stats::default();
    Some(test(&c, &mut st))
}
