//! C07 — inbound QoS2 is delivered exactly once per exchange.

use crate::ap::*;
use crate::conn::*;
use crate::engine::*;
use crate::hist::*;
use crate::scn::*;
use serde_json::json;
use std::collections::{BTreeMap, BTreeSet};

pub struct Qos2Model {
    pub handled: BTreeSet<u32>,
    /// how often each id was published by the peer, and whether something reset-like happened in between
    seen: BTreeMap<u32, u32>,
    pub republished_after_event: u64,
    pub suppressed: u64,
    event_since: BTreeMap<u32, bool>,
}

impl Qos2Model {
    pub fn new() -> Qos2Model {
        Qos2Model { handled: BTreeSet::new(), seen: BTreeMap::new(), republished_after_event: 0, suppressed: 0, event_since: BTreeMap::new() }
    }
    fn mark_event_all(&mut self) {
        for (_, v) in self.event_since.iter_mut() {
            *v = true;
        }
    }
}

impl Observer for Qos2Model {
    fn on_step(&mut self, w: &World, pre: &Tracker, _pa: &App, st: &Step) -> R {
        if st.panic.is_some() {
            return Ok(());
        }
        let t = &w.t;
        let v = t.v.map(|v| v.name()).unwrap_or("undetermined");
        if st.new_session {
            self.handled.clear();
            self.mark_event_all();
        }
        match &st.call {
            Call::Closed => {
                if !pre.persistent {
                    self.handled.clear();
                }
                self.mark_event_all();
            }
            Call::Send(AP::Ack { kind: AckKind::Pubrec, pid, rc: Some(rc), v: V::V5, .. }) if *rc >= 0x80 && !st.has_error() => {
                // the application refused the message: the exchange is over
                self.handled.remove(pid);
                self.event_since.insert(*pid, true);
            }
            Call::Recv { ap: Some(AP::Ack { kind: AckKind::Pubrel, pid, .. }), .. } if st.recvs().iter().any(|a| matches!(a, AP::Ack { kind: AckKind::Pubrel, .. })) => {
                self.handled.remove(pid);
                self.event_since.insert(*pid, true);
            }
            Call::Recv { ap: Some(p @ AP::Publish { qos: 2, pid: Some(id), .. }), .. } => {
                let delivered = st.recvs().iter().filter(|a| matches!(a, AP::Publish { pid: Some(x), qos: 2, .. } if x == id)).count();
                let n = self.seen.entry(*id).or_insert(0);
                *n += 1;
                if *n >= 2 && self.event_since.get(id).copied().unwrap_or(false) {
                    self.republished_after_event += 1;
                }
                self.event_since.insert(*id, false);
                let rejected = delivered == 0 && st.has_error();
                if rejected {
                    // the packet failed validation: it must not count as handled
                    if !self.handled.contains(id) && w.c.qos2_handled().contains(id) {
                        return Err(fail(
                            "C07.handled_set_ne_model",
                            format!("{v}/rejected_publish_recorded/{}", st.errors().last().unwrap_or(&"?")),
                            format!("QoS2 PUBLISH id {id} was rejected ({:?}) and not delivered, yet its id is recorded as handled: a valid retransmission would be swallowed", st.errors()),
                        ));
                    }
                } else if self.handled.contains(id) {
                    self.suppressed += 1;
                    if delivered > 0 {
                        return Err(fail("C07.dup_notified", v, format!("QoS2 PUBLISH id {id} was already notified and not yet released, but the retransmission {} was notified again", p.brief())));
                    }
                    if pre.status == St::Connected {
                        let pubrec = st.sends().iter().any(|a| matches!(a, AP::Ack { kind: AckKind::Pubrec, pid, .. } if pid == id));
                        // the answer may be impossible to send (peer's Maximum Packet Size below 4): then an error is reported
                        let too_large = st.errors().iter().any(|e| *e == "PacketTooLarge");
                        if !pubrec && !too_large {
                            return Err(fail("C07.dup_not_answered", v, format!("retransmitted QoS2 PUBLISH id {id} was suppressed but no PUBREC was requested")));
                        }
                    }
                } else {
                    if delivered != 1 {
                        return Err(fail(
                            "C07.new_not_notified",
                            format!("{v}/{}", if pre.new_session { "new_session" } else { "resumed_or_same" }),
                            format!("QoS2 PUBLISH id {id} is a new message (not notified since the last PUBREL / refusal / new session) but was notified {delivered} times: {}", brief_list(&st.events)),
                        ));
                    }
                    self.handled.insert(*id);
                }
            }
            _ => {}
        }
        let lib: BTreeSet<u32> = w.c.qos2_handled().into_iter().collect();
        if lib != self.handled {
            return Err(fail(
                "C07.handled_set_ne_model",
                format!("{v}/{}", match &st.call {
                    Call::Send(ap) => format!("send/{}", ap.kind_name()),
                    Call::Recv { ap: Some(ap), .. } => format!("recv/{}", ap.kind_name()),
                    Call::Closed => "notify_closed".into(),
                    _ => "other".into(),
                }),
                format!("get_qos2_publish_handled() = {:?} but the ids notified and not yet released are {:?}", lib, self.handled),
            ));
        }
        Ok(())
    }
}

pub fn profile() -> Profile {
    let mut p = Profile::general();
    p.peer_publish = 18;
    p.peer_ack = 10;
    p.ack = 10;
    p.publish = 3;
    p.ids = 0;
    p.sub = 0;
    p.erase = 0;
    p.ping = 1;
    p.auth = 0;
    p.timers = 0;
    p.chunk = 0;
    p.rehandshake = 0;
    p.max_alias = 2;
    p.max_body = 30;
    p.max_segments = 4;
    p
}

pub fn strategy() -> proptest::strategy::BoxedStrategy<History> {
    history(profile(), false, no_hostile())
}

pub fn test(h: &History, st: &mut Stats) -> R {
    let mut m = Qos2Model::new();
    let (_w, out, r) = run_history(h, &mut [&mut m]);
    count_outcome(&out, st);
    r?;
    if m.republished_after_event > 0 {
        st.nontrivial(&(h.cfg, &h.ops));
        st.class("id_republished_after_reconnect_or_pubrel");
        st.sample(|| json!({"cfg": cfg_sig(&h.cfg), "ops": h.ops.len(), "republished_after_event": m.republished_after_event, "duplicates_suppressed": m.suppressed}));
    }
    if m.suppressed > 0 {
        st.class("duplicate_suppressed");
    }
    Ok(())
}

pub fn run(ctx: &Ctx) -> Report {
    let mut rep = Report::new(
        "histories of peer PUBLISH(QoS2, id in {1..4, max}, dup) / PUBREL(id) interleaved with local PUBREC(success|error)/PUBCOMP, automatic responses on/off, disconnects and reconnects (clean or resumed), \
         v5 publishes that fail validation (alias, Receive Maximum) before a valid retransmission; model = set of ids notified and not yet released. \
         non-trivial = some id is published at least twice with a reconnect, PUBREL, refusal or new session in between",
    );
    let n = ctx.tier.pick(400_000, 2_000_000);
    let (st, v) = search(ctx, "c07.history", n, strategy, test);
    rep.absorb("histories", st, v, false);
    rep.assumptions.push("whole frames only (no chunking) so that one op is one PUBLISH; framing is C09's business".into());
    rep
}

pub fn replay(check: &str, case: &serde_json::Value) -> Option<R> {
    if check != "c07.history" {
        return None;
    }
    let h: History = serde_json::from_value(case.clone()).ok()?;
    let mut st = Stats::default();
    Some(test(&h, &mut st))
}
