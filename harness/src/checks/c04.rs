//! C04 — decoder totality: no panic on any bytes; accepted input is canonical and valid.

use crate::adapt::{self, Pid};
use crate::ap::*;
use crate::engine::*;
use crate::ensure;
use crate::gen;
use crate::refcodec;
use crate::util::{catch, h64, hex, hex_trunc, panic_site};
use mqtt_protocol_core::mqtt::packet::{
    DecodeResult, GenericPacket, GenericPacketTrait, MqttBinary, MqttString, Properties, PropertiesParse, PropertiesSize,
    Property, SubEntry, VariableByteInteger,
};
use proptest::prelude::*;
use serde::{Deserialize, Serialize};
use serde_json::json;

#[derive(Clone, Copy, Debug, Serialize, Deserialize, PartialEq, Eq, Hash)]
pub struct Parser {
    pub v: V,
    /// first byte of the frame (type nibble + flags)
    pub first: u8,
    pub idw: usize,
}

impl Parser {
    pub fn name(&self) -> String {
        format!("{}/type{}/idw{}", self.v.name(), self.first >> 4, self.idw)
    }
}

fn all_strings_utf8(ap: &AP) -> bool {
    // Strings read through accessors are &str produced (possibly) by from_utf8_unchecked; re-validate the bytes.
    fn ok(s: &str) -> bool {
        std::str::from_utf8(s.as_bytes()).is_ok()
    }
    fn props_ok(ps: &[Prop]) -> bool {
        ps.iter().all(|p| match &p.val {
            PVal::Str(s) => ok(s),
            PVal::Pair(k, v) => ok(k) && ok(v),
            _ => true,
        })
    }
    if !props_ok(ap.props()) {
        return false;
    }
    match ap {
        AP::Connect { client_id, will, user, .. } => {
            ok(client_id)
                && user.as_ref().map(|u| ok(u)).unwrap_or(true)
                && will.as_ref().map(|w| ok(&w.topic) && props_ok(&w.props)).unwrap_or(true)
        }
        AP::Publish { topic, .. } => ok(topic),
        AP::Subscribe { entries, .. } => entries.iter().all(|e| ok(&e.0)),
        AP::Unsubscribe { topics, .. } => topics.iter().all(|t| ok(t)),
        _ => true,
    }
}

/// Oracle for one input to one packet parser. Returns Ok(accepted?)
pub fn check_parse<P: Pid>(ps: Parser, body: &[u8]) -> Result<bool, Fail> {
    let name = ps.name();
    let r = catch(|| adapt::lib_parse::<P>(ps.v, ps.first, body))
        .map_err(|pm| Fail::new("C04.panic", format!("{name}/{}", panic_site(&pm)), format!("parse panicked: {pm}; body={}", hex_trunc(body, 64))))?;
    let (p, consumed) = match r {
        Err(_) => return Ok(false),
        Ok(x) => x,
    };
    ensure!(consumed <= body.len(), "C04.consumed_gt_input", &name, "consumed {} of {} bytes: {}", consumed, body.len(), hex_trunc(body, 64));
    accepted_consistent::<P>(ps, &p, body)?;
    Ok(true)
}

fn accepted_consistent<P: Pid>(ps: Parser, p: &GenericPacket<P>, body: &[u8]) -> R {
    let name = ps.name();
    let inp = || hex_trunc(body, 64);
    let ser = catch(|| (p.size(), p.to_continuous_buffer()))
        .map_err(|pm| Fail::new("C04.panic", format!("{name}/serialise/{}", panic_site(&pm)), format!("serialising an accepted packet panicked: {pm}; body={}", inp())))?;
    ensure!(ser.0 == ser.1.len(), "C04.size_ne_len", &name, "accepted body {} : size()={} but serialises to {} bytes {}", inp(), ser.0, ser.1.len(), hex_trunc(&ser.1, 64));
    let (frames, rest) = refcodec::frame(&ser.1);
    ensure!(rest == 0 && frames.len() == 1, "C04.size_ne_len", format!("{name}/remaining_length"), "accepted body {} : its serialisation {} is not one well-delimited frame", inp(), hex_trunc(&ser.1, 64));
    let refcodec::Frame::Complete { first, body: body2, .. } = &frames[0] else {
        return Err(Fail::new("C04.size_ne_len", format!("{name}/remaining_length"), "bad length"));
    };
    let again = catch(|| adapt::lib_parse::<P>(ps.v, *first, body2))
        .map_err(|pm| Fail::new("C04.panic", format!("{name}/reparse/{}", panic_site(&pm)), pm))?;
    match again {
        Ok((q, _)) => ensure!(&q == p, "C04.reparse_ne", &name, "accepted body {} : re-parsing its serialisation gives a different packet\n  first  {}\n  second {}", inp(), p, q),
        Err(e) => return Err(Fail::new("C04.reparse_ne", &name, format!("accepted body {} : its own serialisation {} is rejected: {e}", inp(), hex_trunc(&ser.1, 64)))),
    }
    let ap = catch(|| adapt::from_lib(p)).map_err(|pm| Fail::new("C04.panic", format!("{name}/accessors/{}", panic_site(&pm)), format!("accessor panicked on accepted body {}: {pm}", inp())))?;
    ensure!(all_strings_utf8(&ap), "C04.invalid_utf8", &name, "accepted body {} contains a string that is not valid UTF-8", inp());
    // "only permitted properties": placement, multiplicity and values per the specification table (independent of the
    // library's own validators, which builder and parser share)
    if let Some((loc, props)) = props_location(&ap) {
        ensure!(crate::checks::c18::spec_allows(loc, props), "C04.not_buildable", format!("{name}/forbidden_property"), "accepted body {} carries properties the specification does not permit in this packet: {}", inp(), crate::ap::props_brief(props));
    }
    if let AP::Connect { v: V::V5, will: Some(w), .. } = &ap {
        ensure!(crate::checks::c18::spec_allows(Loc::Will, &w.props), "C04.not_buildable", format!("{name}/forbidden_will_property"), "accepted CONNECT {} carries will properties the specification does not permit: {}", inp(), crate::ap::props_brief(&w.props));
    }
    // structural rules = reconstructibility through the public builder of the same kind
    let rebuilt = catch(|| adapt::to_lib::<P>(&ap)).map_err(|pm| Fail::new("C04.panic", format!("{name}/rebuild/{}", panic_site(&pm)), pm))?;
    match rebuilt {
        // AUTH: "reason code without property length" is only a representation of "no properties"
        // (the builder always writes the property length); compare the field values instead
        Ok(q) if ps.first >> 4 == 15 && &q != p => {
            let norm = |a: AP| match a {
                AP::Auth { rc: Some(rc), props: None } => AP::Auth { rc: Some(rc), props: Some(vec![]) },
                x => x,
            };
            let a = norm(adapt::from_lib(&q));
            let b = norm(ap.clone());
            ensure!(a == b, "C04.not_buildable", format!("{name}/differs"), "accepted body {} : rebuilt AUTH differs in field values", inp());
        }
        Ok(q) => ensure!(&q == p, "C04.not_buildable", format!("{name}/differs"), "accepted body {} : rebuilding the packet from its accessor values through the builder gives a different packet\n  parsed  {}\n  rebuilt {}", inp(), p, q),
        Err(e) => {
            let why = e.split(':').next().unwrap_or("").to_string();
            return Err(Fail::new("C04.not_buildable", format!("{name}/{}", classify_unbuildable(&ap, &why)), format!("accepted body {} : the builder of the same kind rejects the parsed field values ({e}); packet {}", inp(), ap.brief())));
        }
    }
    Ok(())
}

/// input-class part of the signature for unbuildable accepted packets
fn classify_unbuildable(ap: &AP, why: &str) -> String {
    if let Some(0) = ap.packet_id() {
        return "packet_id_zero".into();
    }
    match ap {
        AP::Connect { will: Some(w), .. } if w.qos > 2 => "will_qos_3".into(),
        _ => why.replace(' ', "_"),
    }
}

pub fn check_parse_dyn(ps: Parser, body: &[u8]) -> Result<bool, Fail> {
    match ps.idw {
        2 => check_parse::<u16>(ps, body),
        _ => check_parse::<u32>(ps, body),
    }
}

// ---------------------------------------------------------------- sub-parsers

#[derive(Clone, Copy, Debug, Serialize, Deserialize, PartialEq, Eq, Hash)]
pub enum Sub {
    Property,
    Properties,
    SubEntry,
    MqttString,
    MqttBinary,
    Vbi,
}

/// property-carrying location of a v5.0 packet
fn props_location(ap: &AP) -> Option<(Loc, &[Prop])> {
    if ap.version() != V::V5 {
        return None;
    }
    let loc = match ap {
        AP::Connect { .. } => Loc::Connect,
        AP::Connack { .. } => Loc::Connack,
        AP::Publish { .. } => Loc::Publish,
        AP::Ack { kind: AckKind::Puback, .. } => Loc::Puback,
        AP::Ack { kind: AckKind::Pubrec, .. } => Loc::Pubrec,
        AP::Ack { kind: AckKind::Pubrel, .. } => Loc::Pubrel,
        AP::Ack { kind: AckKind::Pubcomp, .. } => Loc::Pubcomp,
        AP::Subscribe { .. } => Loc::Subscribe,
        AP::Suback { .. } => Loc::Suback,
        AP::Unsubscribe { .. } => Loc::Unsubscribe,
        AP::Unsuback { .. } => Loc::Unsuback,
        AP::Disconnect { .. } => Loc::Disconnect,
        AP::Auth { .. } => Loc::Auth,
        _ => return None,
    };
    Some((loc, ap.props()))
}

pub const ALL_SUBS: [Sub; 6] = [Sub::Property, Sub::Properties, Sub::SubEntry, Sub::MqttString, Sub::MqttBinary, Sub::Vbi];

pub fn check_sub(s: Sub, data: &[u8]) -> Result<bool, Fail> {
    let name = format!("{s:?}");
    let inp = || hex_trunc(data, 64);
    macro_rules! guard {
        ($e:expr) => {
            catch(|| $e).map_err(|pm| Fail::new("C04.panic", format!("{name}/{}", panic_site(&pm)), format!("{name} parse panicked: {pm}; input={}", inp())))?
        };
    }
    match s {
        Sub::Property => match guard!(Property::parse(data)) {
            Err(_) => Ok(false),
            Ok((p, n)) => {
                ensure!(n <= data.len(), "C04.consumed_gt_input", &name, "consumed {} of {}: {}", n, data.len(), inp());
                let b = p.to_continuous_buffer();
                ensure!(p.size() == b.len(), "C04.size_ne_len", &name, "Property accepted from {} has size()={} but serialises to {}", inp(), p.size(), hex(&b));
                match guard!(Property::parse(&b)) {
                    Ok((q, m)) => ensure!(q == p && m == b.len(), "C04.reparse_ne", &name, "Property re-parse differs for input {}", inp()),
                    Err(e) => return Err(Fail::new("C04.reparse_ne", &name, format!("own serialisation {} rejected: {e:?}", hex(&b)))),
                }
                let ap = adapt::prop_from_lib(&p);
                ensure!(crate::ap::prop_value_ok(&ap), "C04.not_buildable", format!("{name}/value"), "Property accepted from {} carries a value the specification forbids: {:?}", inp(), ap);
                match adapt::prop_to_lib(&ap) {
                    Ok(q) => ensure!(q == p, "C04.not_buildable", format!("{name}/differs"), "Property rebuilt from accessors differs: input {}", inp()),
                    Err(e) => return Err(Fail::new("C04.not_buildable", format!("{name}/ctor"), format!("constructor rejects the accepted value: {e}; input {}", inp()))),
                }
                Ok(true)
            }
        },
        Sub::Properties => match guard!(<Properties as PropertiesParse>::parse(data)) {
            Err(_) => Ok(false),
            Ok((ps, n)) => {
                ensure!(n <= data.len(), "C04.consumed_gt_input", &name, "consumed {} of {}: {}", n, data.len(), inp());
                // canonical re-encoding: property length + properties
                let mut b = Vec::new();
                refcodec::vbi(ps.size() as u32, &mut b);
                for p in &ps {
                    b.extend_from_slice(&p.to_continuous_buffer());
                }
                match guard!(<Properties as PropertiesParse>::parse(&b)) {
                    Ok((qs, m)) => ensure!(qs == ps && m == b.len(), "C04.reparse_ne", &name, "Properties re-parse differs for input {}", inp()),
                    Err(e) => return Err(Fail::new("C04.reparse_ne", &name, format!("own serialisation {} rejected: {e:?}", hex_trunc(&b, 64)))),
                }
                Ok(true)
            }
        },
        Sub::SubEntry => {
            if data.is_empty() {
                // SubEntry::parse indexes data[cursor..] after MqttString::decode; empty input is a legal call
            }
            match guard!(SubEntry::parse(data)) {
                Err(_) => Ok(false),
                Ok((e, n)) => {
                    ensure!(n <= data.len(), "C04.consumed_gt_input", &name, "consumed {} of {}: {}", n, data.len(), inp());
                    let b = e.to_continuous_buffer();
                    ensure!(e.size() == b.len(), "C04.size_ne_len", &name, "SubEntry size()={} serialises to {}", e.size(), b.len());
                    match guard!(SubEntry::parse(&b)) {
                        Ok((q, m)) => ensure!(q == e && m == b.len(), "C04.reparse_ne", &name, "SubEntry re-parse differs for input {}", inp()),
                        Err(er) => return Err(Fail::new("C04.reparse_ne", &name, format!("own serialisation rejected: {er:?}"))),
                    }
                    ensure!(std::str::from_utf8(e.topic_filter().as_bytes()).is_ok(), "C04.invalid_utf8", &name, "topic filter not UTF-8: {}", inp());
                    Ok(true)
                }
            }
        }
        Sub::MqttString => match guard!(MqttString::decode(data)) {
            Err(_) => Ok(false),
            Ok((s, n)) => {
                ensure!(n <= data.len(), "C04.consumed_gt_input", &name, "consumed {} of {}: {}", n, data.len(), inp());
                ensure!(std::str::from_utf8(s.as_str().as_bytes()).is_ok(), "C04.invalid_utf8", &name, "MqttString accepted invalid UTF-8: {}", inp());
                let b = s.to_continuous_buffer();
                ensure!(s.size() == b.len() && b[..] == data[..n], "C04.size_ne_len", &name, "MqttString size()={} serialises to {} from {}", s.size(), hex_trunc(&b, 32), inp());
                Ok(true)
            }
        },
        Sub::MqttBinary => match guard!(MqttBinary::decode(data)) {
            Err(_) => Ok(false),
            Ok((s, n)) => {
                ensure!(n <= data.len(), "C04.consumed_gt_input", &name, "consumed {} of {}: {}", n, data.len(), inp());
                let b = s.to_continuous_buffer();
                ensure!(s.size() == b.len() && b[..] == data[..n], "C04.size_ne_len", &name, "MqttBinary size()={} serialises to {} from {}", s.size(), hex_trunc(&b, 32), inp());
                Ok(true)
            }
        },
        Sub::Vbi => match guard!(VariableByteInteger::decode_stream(data)) {
            DecodeResult::Ok(v, n) => {
                ensure!(n <= data.len(), "C04.consumed_gt_input", &name, "consumed {} of {}: {}", n, data.len(), inp());
                let b = v.to_continuous_buffer();
                ensure!(v.size() == b.len(), "C04.size_ne_len", &name, "VBI size()={} serialises to {}", v.size(), b.len());
                // decode_stream canonicalises by design (the statement does not demand that a non-minimal
                // encoding is rejected by this helper); what must hold is that the value survives re-encoding
                match VariableByteInteger::decode_stream(&b) {
                    DecodeResult::Ok(w, m) => ensure!(w == v && m == b.len(), "C04.reparse_ne", &name, "VBI {} re-decodes differently", hex(&b)),
                    _ => return Err(Fail::new("C04.reparse_ne", &name, format!("own encoding {} rejected", hex(&b)))),
                }
                Ok(true)
            }
            _ => Ok(false),
        },
    }
}

// ---------------------------------------------------------------- enumeration of short inputs

#[derive(Clone, Copy, Debug, Serialize, Deserialize)]
pub struct ShortJob {
    pub parser: Option<Parser>,
    pub sub: Option<Sub>,
    pub max_len: usize,
    /// fixed first input byte (None = all): splits the length-3 space into 256 jobs
    pub lead: Option<u8>,
}

pub fn all_parsers() -> Vec<Parser> {
    let mut v = Vec::new();
    for ver in [V::V311, V::V5] {
        for t in 1u8..=15 {
            if t == 15 && ver == V::V311 {
                continue;
            }
            let id_carrying = (3..=11).contains(&t);
            let idws: &[usize] = if id_carrying { &[2, 4] } else { &[2] };
            for &idw in idws {
                if t == 3 {
                    for fl in 0u8..16 {
                        v.push(Parser { v: ver, first: 0x30 | fl, idw });
                    }
                } else {
                    let fl = if t == 6 || t == 8 || t == 10 { 2 } else { 0 };
                    v.push(Parser { v: ver, first: (t << 4) | fl, idw });
                }
            }
        }
    }
    v
}

fn for_each_short(max_len: usize, lead: Option<u8>, mut f: impl FnMut(&[u8]) -> R) -> R {
    let mut buf = [0u8; 4];
    if lead.is_none() {
        f(&buf[..0])?;
    }
    for len in 1..=max_len {
        // odometer over `len` bytes
        let total: u64 = match lead {
            None => 256u64.pow(len as u32),
            Some(_) => 256u64.pow(len as u32 - 1),
        };
        for k in 0..total {
            let mut x = k;
            let start = if let Some(l) = lead {
                buf[0] = l;
                1
            } else {
                0
            };
            for i in (start..len).rev() {
                buf[i] = (x & 0xff) as u8;
                x >>= 8;
            }
            f(&buf[..len])?;
        }
    }
    Ok(())
}

pub fn test_short(j: &ShortJob, st: &mut Stats) -> R {
    let mut n = 0u64;
    let mut acc = 0u64;
    let mut firsts: Vec<Vec<u8>> = Vec::new();
    let r = for_each_short(j.max_len, j.lead, |inp| {
        n += 1;
        let ok = match (j.parser, j.sub) {
            (Some(p), _) => check_parse_dyn(p, inp)?,
            (_, Some(s)) => check_sub(s, inp)?,
            _ => false,
        };
        if ok {
            acc += 1;
            if firsts.len() < 2 {
                firsts.push(inp.to_vec());
            }
        }
        Ok(())
    });
    st.evaluations += n.saturating_sub(1);
    st.count("short_inputs_accepted", acc);
    let name = j.parser.map(|p| p.name()).or(j.sub.map(|s| format!("{s:?}"))).unwrap_or_default();
    if acc > 0 {
        // every (parser, lead) job that accepted something is one distinct non-trivial enumeration unit
        st.nontrivial(&(name.as_str(), j.lead, j.max_len));
        for f in &firsts {
            st.nontrivial(&(name.as_str(), f));
        }
        st.sample(|| json!({"parser": name, "max_len": j.max_len, "accepted": acc, "of": n, "first_accepted": firsts.iter().map(|f| hex(f)).collect::<Vec<_>>()}));
    }
    r
}

pub fn short_jobs(max_len: usize) -> Vec<ShortJob> {
    let mut v = Vec::new();
    let leads: Vec<Option<u8>> = if max_len >= 3 { (0u16..256).map(|b| Some(b as u8)).collect() } else { vec![None] };
    for p in all_parsers() {
        if max_len >= 3 {
            v.push(ShortJob { parser: Some(p), sub: None, max_len: 0, lead: None }); // the empty input
        }
        for l in &leads {
            v.push(ShortJob { parser: Some(p), sub: None, max_len, lead: *l });
        }
    }
    for s in ALL_SUBS {
        if max_len >= 3 {
            v.push(ShortJob { parser: None, sub: Some(s), max_len: 0, lead: None });
        }
        for l in &leads {
            v.push(ShortJob { parser: None, sub: Some(s), max_len, lead: *l });
        }
    }
    v
}

// ---------------------------------------------------------------- structured mutations

#[derive(Clone, Debug, Serialize, Deserialize)]
pub enum Mut {
    FlipBit { pos: u16, bit: u8 },
    Truncate { pos: u16 },
    Insert { pos: u16, byte: u8 },
    SetByte { pos: u16, byte: u8 },
    /// overwrite two bytes with a big-endian length
    SetLen16 { pos: u16, val: u16 },
    /// b -> [b|0x80, 0x00]: a non-minimal variable byte integer when `pos` is a VBI
    NonMinimalVbi { pos: u16 },
    /// zero `n` bytes (packet id 0 when it hits the id)
    Zero { pos: u16, n: u8 },
    /// duplicate the slice [pos, pos+n) in place (duplicated property)
    Dup { pos: u16, n: u8 },
    /// first-byte flags (PUBLISH qos 3 / dup / retain)
    Flags { fl: u8 },
    /// append bytes
    Append { bytes: Vec<u8> },
}

fn mut_strategy() -> BoxedStrategy<Mut> {
    prop_oneof![
        3 => (any::<u16>(), 0u8..8).prop_map(|(pos, bit)| Mut::FlipBit { pos, bit }),
        2 => any::<u16>().prop_map(|pos| Mut::Truncate { pos }),
        2 => (any::<u16>(), prop_oneof![Just(0u8), Just(0x80), Just(0xFF), Just(0x7f), Just(1)]).prop_map(|(pos, byte)| Mut::Insert { pos, byte }),
        2 => (any::<u16>(), prop_oneof![Just(0u8), Just(0x80), Just(0xFF), Just(1), Just(3), any::<u8>()]).prop_map(|(pos, byte)| Mut::SetByte { pos, byte }),
        2 => (any::<u16>(), prop_oneof![Just(0u16), Just(1), Just(2), Just(0xFFFF), Just(0x7FFF), any::<u16>()]).prop_map(|(pos, val)| Mut::SetLen16 { pos, val }),
        3 => any::<u16>().prop_map(|pos| Mut::NonMinimalVbi { pos }),
        2 => (any::<u16>(), 1u8..5).prop_map(|(pos, n)| Mut::Zero { pos, n }),
        2 => (any::<u16>(), 1u8..12).prop_map(|(pos, n)| Mut::Dup { pos, n }),
        1 => (0u8..16).prop_map(|fl| Mut::Flags { fl }),
        1 => proptest::collection::vec(any::<u8>(), 1..4).prop_map(|bytes| Mut::Append { bytes }),
    ]
    .boxed()
}

pub fn apply_mut(first: &mut u8, b: &mut Vec<u8>, m: &Mut) {
    let at = |pos: u16, len: usize| -> usize { pick_idx(pos, len.max(1)) };
    match m {
        Mut::FlipBit { pos, bit } => {
            if !b.is_empty() {
                let i = at(*pos, b.len());
                b[i] ^= 1 << bit;
            }
        }
        Mut::Truncate { pos } => {
            let i = at(*pos, b.len() + 1);
            b.truncate(i);
        }
        Mut::Insert { pos, byte } => {
            let i = at(*pos, b.len() + 1);
            b.insert(i, *byte);
        }
        Mut::SetByte { pos, byte } => {
            if !b.is_empty() {
                let i = at(*pos, b.len());
                b[i] = *byte;
            }
        }
        Mut::SetLen16 { pos, val } => {
            if b.len() >= 2 {
                let i = at(*pos, b.len() - 1);
                b[i] = (val >> 8) as u8;
                b[i + 1] = *val as u8;
            }
        }
        Mut::NonMinimalVbi { pos } => {
            if !b.is_empty() {
                // prefer a position holding a byte < 0x80 at or after the selected one
                let start = at(*pos, b.len());
                if let Some(i) = (start..b.len()).chain(0..start).find(|&i| b[i] < 0x80) {
                    b[i] |= 0x80;
                    b.insert(i + 1, 0x00);
                }
            }
        }
        Mut::Zero { pos, n } => {
            if !b.is_empty() {
                let i = at(*pos, b.len());
                for k in i..(i + *n as usize).min(b.len()) {
                    b[k] = 0;
                }
            }
        }
        Mut::Dup { pos, n } => {
            if !b.is_empty() {
                let i = at(*pos, b.len());
                let j = (i + *n as usize).min(b.len());
                let s = b[i..j].to_vec();
                let _ = b.splice(j..j, s);
            }
        }
        Mut::Flags { fl } => {
            *first = (*first & 0xF0) | (fl & 0x0F);
        }
        Mut::Append { bytes } => b.extend_from_slice(bytes),
    }
}

#[derive(Clone, Debug, Serialize, Deserialize)]
pub struct MutCase {
    pub idw: usize,
    pub ap: AP,
    pub muts: Vec<Mut>,
    /// structured property mutations applied to the abstract packet before it is encoded: properties appended to its
    /// list (any of the 27 kinds with a valid value, so mostly foreign to the location) ...
    #[serde(default)]
    pub extra_props: Vec<Prop>,
    /// ... and a copy of the k-th property it already has (a forbidden repetition for most kinds)
    #[serde(default)]
    pub dup_prop: Option<u16>,
}

fn props_mut(ap: &mut AP) -> Option<&mut Vec<Prop>> {
    match ap {
        AP::Connect { v: V::V5, props, .. } | AP::Connack { v: V::V5, props, .. } | AP::Publish { v: V::V5, props, .. } | AP::Subscribe { v: V::V5, props, .. } | AP::Suback { v: V::V5, props, .. } | AP::Unsubscribe { v: V::V5, props, .. } | AP::Unsuback { v: V::V5, props, .. } => Some(props),
        AP::Ack { v: V::V5, props: Some(props), .. } | AP::Disconnect { v: V::V5, props: Some(props), .. } | AP::Auth { props: Some(props), .. } => Some(props),
        _ => None,
    }
}

pub fn mut_case_strategy() -> BoxedStrategy<MutCase> {
    let o = gen::GenOpts { big: false, beyond_spec: true };
    (gen::version(), prop_oneof![3 => Just(2usize), 1 => Just(4usize)])
        .prop_flat_map(move |(v, idw)| {
            let any_prop = proptest::sample::select(PROP_TABLE.iter().map(|s| s.id).collect::<Vec<u8>>()).prop_flat_map(|id| gen::prop_value_valid(id, false));
            (
                gen::any_packet(v, idw, o),
                proptest::collection::vec(mut_strategy(), 0..4),
                prop_oneof![3 => Just(vec![]), 2 => proptest::collection::vec(any_prop, 1..3)],
                prop_oneof![3 => Just(None), 1 => any::<u16>().prop_map(Some)],
            )
                .prop_map(move |(ap, mut muts, extra_props, dup_prop)| {
                    if extra_props.is_empty() && dup_prop.is_none() && muts.is_empty() {
                        muts.push(Mut::Truncate { pos: 0xffff });
                    }
                    // structured property mutations are only meaningful when the bytes are not shuffled afterwards
                    if !extra_props.is_empty() || dup_prop.is_some() {
                        muts.truncate(1);
                    }
                    MutCase { idw, ap, muts, extra_props, dup_prop }
                })
        })
        .boxed()
}

pub fn test_mut(c: &MutCase, st: &mut Stats) -> R {
    let mut ap = c.ap.clone();
    if let Some(props) = props_mut(&mut ap) {
        if let (Some(k), false) = (c.dup_prop, props.is_empty()) {
            let p = props[pick_idx(k, props.len())].clone();
            props.push(p);
            st.class("structured: property repeated");
        }
        if !c.extra_props.is_empty() {
            props.extend(c.extra_props.iter().cloned());
            st.class("structured: property appended");
        }
    }
    let bytes = refcodec::encode(&ap, c.idw);
    let (frames, _) = refcodec::frame(&bytes);
    let refcodec::Frame::Complete { first, body, .. } = &frames[0] else { return Ok(()) };
    let mut first = *first;
    let mut body = body.clone();
    for m in &c.muts {
        apply_mut(&mut first, &mut body, m);
    }
    if first >> 4 != 3 {
        // flags of non-PUBLISH packets are not seen by the packet parsers
        first = bytes[0];
    }
    let ps = Parser { v: c.ap.version(), first, idw: c.idw };
    let accepted = check_parse_dyn(ps, &body)?;
    st.class(if accepted { "mutant_accepted" } else { "mutant_rejected" });
    let changed = body != frames_body(&bytes) || first != bytes[0];
    if accepted && changed {
        st.nontrivial(&(ps, &body));
        st.class(&format!("accepted/{}", c.ap.kind_name()));
        st.sample(|| json!({"packet": c.ap.brief(), "mutations": format!("{:?}", c.muts), "mutated_body": hex_trunc(&body, 48), "verdict": "accepted"}));
    } else if !accepted && body.len() >= 3 {
        // rejected after several fields: count as non-trivial when the valid prefix is >= 3 bytes
        let orig = frames_body(&bytes);
        let common = orig.iter().zip(body.iter()).take_while(|(a, b)| a == b).count();
        if common >= 3 {
            st.nontrivial(&(ps, &body));
        }
    }
    Ok(())
}

fn frames_body(bytes: &[u8]) -> Vec<u8> {
    let (frames, _) = refcodec::frame(bytes);
    match &frames[0] {
        refcodec::Frame::Complete { body, .. } => body.clone(),
        _ => vec![],
    }
}

// ---------------------------------------------------------------- random strings

#[derive(Clone, Debug, Serialize, Deserialize)]
pub struct RandCase {
    pub parser: Option<Parser>,
    pub sub: Option<Sub>,
    #[serde(with = "crate::ap::hexser")]
    pub data: Vec<u8>,
}

pub fn rand_case_strategy() -> BoxedStrategy<RandCase> {
    let parsers = all_parsers();
    let target = prop_oneof![
        6 => proptest::sample::select(parsers).prop_map(|p| (Some(p), None)),
        1 => proptest::sample::select(ALL_SUBS.to_vec()).prop_map(|s| (None, Some(s))),
    ];
    // bytes biased towards small values so that lengths and ids are plausible
    let byte = prop_oneof![4 => 0u8..8, 2 => 0u8..48, 1 => any::<u8>(), 1 => Just(0x80u8), 1 => Just(0xffu8)];
    (target, proptest::collection::vec(byte, 0..40)).prop_map(|((parser, sub), data)| RandCase { parser, sub, data }).boxed()
}

pub fn test_rand(c: &RandCase, st: &mut Stats) -> R {
    let ok = match (c.parser, c.sub) {
        (Some(p), _) => check_parse_dyn(p, &c.data)?,
        (_, Some(s)) => check_sub(s, &c.data)?,
        _ => false,
    };
    if ok {
        st.class("random_accepted");
        st.nontrivial(&(c.parser, c.sub, &c.data));
        if c.data.len() > 4 {
            st.sample(|| json!({"parser": c.parser.map(|p| p.name()), "sub": format!("{:?}", c.sub), "data": hex(&c.data), "verdict": "accepted"}));
        }
    } else {
        st.class("random_rejected");
    }
    Ok(())
}

pub fn run(ctx: &Ctx) -> Report {
    let mut rep = Report::new(
        "(i) every byte string of length <= L (quick 2, thorough 3) through each of the 102 packet-parser instantiations (29 kinds, 2- and 4-byte ids, 16 PUBLISH flag nibbles) \
         and 6 sub-parsers; (ii) 1-3 structured mutations of valid reference encodings; (iii) random strings. \
         Oracle on acceptance: consumed<=len, size()==len, re-parse equal, UTF-8 valid, rebuildable through the public builder. \
         non-trivial = input accepted (or rejected after >= 3 unchanged bytes); distinct by (parser, input)",
    );
    let max_len = ctx.tier.pick(2, 3) as usize;
    let jobs = short_jobs(max_len);
    let (st, v) = enumerate(ctx, "c04.short", &jobs, test_short);
    rep.absorb("exhaustive_short_inputs", st, v, true);
    let n = ctx.tier.pick(300_000, 5_000_000);
    let (st, v) = search(ctx, "c04.mutation", n, mut_case_strategy, test_mut);
    rep.absorb("structured_mutations", st, v, false);
    let n = ctx.tier.pick(200_000, 3_000_000);
    let (st, v) = search(ctx, "c04.random", n, rand_case_strategy, test_rand);
    rep.absorb("random_strings", st, v, false);
    rep.assumptions.push("nothing is asserted about which error a parser returns, nor that trailing bytes are rejected".into());
    rep.assumptions.push("'structural rules the builders enforce' is decided by rebuilding the accepted packet through the public builder of the same kind".into());
    rep.assumptions.push(format!("exhaustive up to length {max_len}"));
    rep
}

pub fn replay(check: &str, case: &serde_json::Value) -> Option<R> {
    let mut st = Stats::default();
    match check {
        "c04.short" => {
            let c: ShortJob = serde_json::from_value(case.clone()).ok()?;
            Some(test_short(&c, &mut st))
        }
        "c04.mutation" => {
            let c: MutCase = serde_json::from_value(case.clone()).ok()?;
            Some(test_mut(&c, &mut st))
        }
        "c04.random" => {
            let c: RandCase = serde_json::from_value(case.clone()).ok()?;
            Some(test_rand(&c, &mut st))
        }
        _ => None,
    }
}

#[allow(dead_code)]
fn _unused(_: u64) -> u64 {
    h64(&0u8)
}
