//! C11 — send gating: role x version x connection-state matrix matches the MQTT rules.

use crate::adapt;
use crate::ap::*;
use crate::conn::*;
use crate::engine::*;
use crate::hist::fail;
use crate::refcodec;
use crate::scn::*;
use mqtt_protocol_core::mqtt;
use mqtt_protocol_core::mqtt::connection::role::{self, RoleType};
use mqtt_protocol_core::mqtt::connection::{GenericConnection, Sendable};
use mqtt_protocol_core::mqtt::packet::v3_1_1 as v3;
use mqtt_protocol_core::mqtt::packet::v5_0 as v5;
use mqtt_protocol_core::mqtt::packet::GenericPacket;
use serde::{Deserialize, Serialize};
use serde_json::json;
use std::marker::PhantomData;

#[derive(Clone, Copy, Debug, PartialEq, Eq, Hash, Serialize, Deserialize)]
pub enum Stage {
    Fresh,
    AfterClose,
    Connecting,
    Connected,
    /// acting as server: CONNECT received, a failing CONNACK sent, the transport end not yet reported
    Refused,
}

#[derive(Clone, Copy, Debug, PartialEq, Eq, Hash, Serialize, Deserialize)]
pub enum Kind {
    Connect,
    Connack,
    Publish0,
    Publish1,
    Publish2,
    Puback,
    Pubrec,
    Pubrel,
    Pubcomp,
    Subscribe,
    Suback,
    Unsubscribe,
    Unsuback,
    Pingreq,
    Pingresp,
    Disconnect,
    Auth,
}

pub const KINDS: [Kind; 17] = [
    Kind::Connect,
    Kind::Connack,
    Kind::Publish0,
    Kind::Publish1,
    Kind::Publish2,
    Kind::Puback,
    Kind::Pubrec,
    Kind::Pubrel,
    Kind::Pubcomp,
    Kind::Subscribe,
    Kind::Suback,
    Kind::Unsubscribe,
    Kind::Unsuback,
    Kind::Pingreq,
    Kind::Pingresp,
    Kind::Disconnect,
    Kind::Auth,
];

#[derive(Clone, Debug, Serialize, Deserialize)]
pub struct Cell {
    pub role: Role,
    pub ctor: CVer,
    /// version used for the handshake (adopted by an undetermined server)
    pub hs: V,
    pub stage: Stage,
    pub as_client: bool,
    pub persistent: bool,
    pub offline: bool,
    pub kind: Kind,
    pub pv: V,
    pub variant: u8,
}

/// MQTT: which role may send which packet kind in which version (independent table)
pub fn role_may_send(role: Role, k: Kind, pv: V) -> bool {
    use Kind::*;
    let client = matches!(k, Connect | Publish0 | Publish1 | Publish2 | Puback | Pubrec | Pubrel | Pubcomp | Subscribe | Unsubscribe | Pingreq | Disconnect | Auth);
    let server = matches!(k, Connack | Publish0 | Publish1 | Publish2 | Puback | Pubrec | Pubrel | Pubcomp | Suback | Unsuback | Pingresp | Auth) || (k == Disconnect && pv == V::V5);
    match role {
        Role::Client => client,
        Role::Server => server,
        Role::Any => true,
    }
}

fn packet(k: Kind, pv: V, id: u32, variant: u8) -> Option<AP> {
    let v = pv;
    let big = variant == 1;
    let props5 = |ps: Vec<Prop>| if v == V::V5 && big { ps } else { vec![] };
    Some(match k {
        Kind::Connect => AP::Connect { v, clean: true, keep_alive: if big { 30 } else { 0 }, client_id: "c".into(), will: None, user: if big { Some("u".into()) } else { None }, pass: None, props: props5(vec![Prop::u16(pid::RECEIVE_MAXIMUM, 5)]) },
        Kind::Connack => AP::Connack { v, sp: false, code: 0, props: props5(vec![Prop::u16(pid::RECEIVE_MAXIMUM, 5)]) },
        Kind::Publish0 => AP::Publish { v, dup: false, qos: 0, retain: big, topic: "t/0".into(), pid: None, props: vec![], payload: vec![1, 2, 3] },
        Kind::Publish1 => AP::Publish { v, dup: false, qos: 1, retain: false, topic: "t/1".into(), pid: Some(id), props: props5(vec![Prop::u32(pid::MESSAGE_EXPIRY_INTERVAL, 9)]), payload: vec![4] },
        Kind::Publish2 => AP::Publish { v, dup: false, qos: 2, retain: false, topic: "t/2".into(), pid: Some(id), props: vec![], payload: if big { vec![0; 200] } else { vec![] } },
        Kind::Puback => ack_ap(v, AckKind::Puback, id, if big { 1 } else { 0 }),
        // variant 1: the application refuses the inbound message (v5.0 reason code >= 0x80)
        Kind::Pubrec => ack_ap(v, AckKind::Pubrec, id, if big { 2 } else { 0 }),
        Kind::Pubrel => ack_ap(v, AckKind::Pubrel, id, 0),
        Kind::Pubcomp => ack_ap(v, AckKind::Pubcomp, id, 0),
        Kind::Subscribe => AP::Subscribe { v, pid: id, props: vec![], entries: vec![("a/b".into(), 1)] },
        Kind::Suback => AP::Suback { v, pid: id, props: vec![], codes: vec![0] },
        Kind::Unsubscribe => AP::Unsubscribe { v, pid: id, props: vec![], topics: vec!["a/b".into()] },
        Kind::Unsuback => AP::Unsuback { v, pid: id, props: vec![], codes: if v == V::V5 { vec![0] } else { vec![] } },
        Kind::Pingreq => AP::Pingreq { v },
        Kind::Pingresp => AP::Pingresp { v },
        Kind::Disconnect => AP::Disconnect { v, rc: if v == V::V5 && big { Some(0x04) } else { None }, props: None },
        Kind::Auth => {
            if v == V::V311 {
                return None;
            }
            AP::Auth { rc: Some(0x18), props: Some(vec![Prop { id: pid::AUTHENTICATION_METHOD, val: PVal::Str("m".into()) }]) }
        }
    })
}

fn initiates(k: Kind) -> bool {
    matches!(k, Kind::Publish1 | Kind::Publish2 | Kind::Subscribe | Kind::Unsubscribe)
}
fn own_id(k: Kind) -> bool {
    initiates(k) || k == Kind::Pubrel
}

pub fn all_cells() -> Vec<Cell> {
    let mut out = Vec::new();
    for role in [Role::Client, Role::Server, Role::Any] {
        for ctor in [CVer::V311, CVer::V5, CVer::Undetermined] {
            let hss: Vec<V> = match ctor {
                CVer::V311 => vec![V::V311],
                CVer::V5 => vec![V::V5],
                CVer::Undetermined => vec![V::V311, V::V5],
            };
            for hs in hss {
                let mut stages: Vec<(Stage, bool)> = vec![(Stage::Fresh, role != Role::Server)];
                let sides: Vec<bool> = match (role, ctor) {
                    // an undetermined connection can only be brought up by receiving a CONNECT
                    (Role::Client, CVer::Undetermined) => vec![],
                    (_, CVer::Undetermined) => vec![false],
                    (Role::Client, _) => vec![true],
                    (Role::Server, _) => vec![false],
                    (Role::Any, _) => vec![true, false],
                };
                for side in sides {
                    for st in [Stage::AfterClose, Stage::Connecting, Stage::Connected] {
                        stages.push((st, side));
                    }
                    if !side {
                        stages.push((Stage::Refused, side));
                    }
                }
                if ctor == CVer::Undetermined && hs == V::V5 {
                    // Fresh is the same cell for both handshake versions
                    stages.retain(|(s, _)| *s != Stage::Fresh);
                }
                for (stage, as_client) in stages {
                    for persistent in [false, true] {
                        for offline in [false, true] {
                            for kind in KINDS {
                                for pv in [V::V311, V::V5] {
                                    if kind == Kind::Auth && pv == V::V311 {
                                        continue;
                                    }
                                    for variant in 0..2u8 {
                                        out.push(Cell { role, ctor, hs, stage, as_client, persistent, offline, kind, pv, variant });
                                    }
                                }
                            }
                        }
                    }
                }
            }
        }
    }
    out
}

fn connect_for(hs: V, persistent: bool) -> AP {
    let args = ConnectArgs { clean: !persistent, keep_alive: 0, p: HsProps { sei: if persistent { Some(300) } else { None }, ..Default::default() } };
    connect_ap(hs, &args)
}

/// Bring a fresh connection into the cell's stage. Returns an error text if the preparation itself misbehaves.
pub fn prepare(c: &mut dyn Conn, cell: &Cell) -> Result<(), String> {
    if cell.offline {
        c.set_offline_publish(true);
    }
    if cell.stage == Stage::Fresh {
        return Ok(());
    }
    let idw = c.cfg().idw;
    let connect = connect_for(cell.hs, cell.persistent);
    if cell.as_client {
        let e = c.send(&connect)?.map_err(|p| format!("panic {p}"))?;
        if !e.iter().any(|x| matches!(x, NEvent::Send { .. })) {
            return Err(format!("CONNECT not sent: {}", brief_list(&e)));
        }
    } else {
        let calls = recv_all(c, &refcodec::encode(&connect, idw))?;
        if !flat(&calls).iter().any(|x| matches!(x, NEvent::Recv(AP::Connect { .. }))) {
            return Err(format!("CONNECT not delivered: {}", brief_list(&flat(&calls))));
        }
    }
    if cell.stage == Stage::Connecting {
        return Ok(());
    }
    if cell.stage == Stage::Refused {
        let refusal = connack_ap(cell.hs, &ConnackArgs { sp: false, fail: 3, p: HsProps::default() });
        let e = c.send(&refusal)?.map_err(|p| format!("panic {p}"))?;
        if !e.iter().any(|x| matches!(x, NEvent::Send { .. })) {
            return Err(format!("refusing CONNACK not sent: {}", brief_list(&e)));
        }
        return Ok(());
    }
    // variant 1, v5.0 client that asked for a kept session: the server ends it (Session Expiry Interval 0 in CONNACK)
    let override_sei = session_ended_by_server(cell);
    let connack = connack_ap(cell.hs, &ConnackArgs { sp: false, fail: 0, p: HsProps { sei: if override_sei { Some(0) } else { None }, ..HsProps::default() } });
    if cell.as_client {
        let calls = recv_all(c, &refcodec::encode(&connack, idw))?;
        if !flat(&calls).iter().any(|x| matches!(x, NEvent::Recv(AP::Connack { .. }))) {
            return Err(format!("CONNACK not delivered: {}", brief_list(&flat(&calls))));
        }
    } else {
        let e = c.send(&connack)?.map_err(|p| format!("panic {p}"))?;
        if !e.iter().any(|x| matches!(x, NEvent::Send { .. })) {
            return Err(format!("CONNACK not sent: {}", brief_list(&e)));
        }
    }
    if cell.variant == 1 {
        // an inbound QoS 2 PUBLISH (id 1) was delivered and is not answered yet: the acknowledgement kinds of this variant
        // refer to a live inbound exchange, so a refused acknowledgement has session state it must leave alone
        let inbound = publish_ap(cell.hs, 2, false, false, 1, AliasMode::None, Some(1), vec![0xee]);
        let calls = recv_all(c, &refcodec::encode(&inbound, idw))?;
        if !flat(&calls).iter().any(|x| matches!(x, NEvent::Recv(AP::Publish { .. }))) {
            return Err(format!("inbound PUBLISH not delivered: {}", brief_list(&flat(&calls))));
        }
    }
    if cell.stage == Stage::Connected {
        return Ok(());
    }
    // AfterClose: transport lost
    c.closed().map_err(|p| format!("panic {p}"))?;
    Ok(())
}

fn session_ended_by_server(cell: &Cell) -> bool {
    cell.variant == 1 && cell.as_client && cell.hs == V::V5 && cell.persistent && matches!(cell.stage, Stage::Connected | Stage::AfterClose)
}

#[derive(Debug, PartialEq, Eq)]
enum Expect {
    Sent,
    Forbidden,
    /// QoS>0 PUBLISH / PUBREL while not connected in a persistent session or with offline publishing:
    /// never transmitted; either refused cleanly or accepted and stored
    NotTransmitted,
}

fn expectation(cell: &Cell) -> Expect {
    let effective: Option<V> = match cell.ctor {
        CVer::V311 => Some(V::V311),
        CVer::V5 => Some(V::V5),
        CVer::Undetermined => {
            if cell.stage == Stage::Fresh {
                None
            } else {
                Some(cell.hs)
            }
        }
    };
    if effective != Some(cell.pv) {
        return Expect::Forbidden;
    }
    if !role_may_send(cell.role, cell.kind, cell.pv) {
        return Expect::Forbidden;
    }
    let disconnected = matches!(cell.stage, Stage::Fresh | Stage::AfterClose | Stage::Refused);
    let connecting = cell.stage == Stage::Connecting;
    let connected = cell.stage == Stage::Connected;
    match cell.kind {
        Kind::Connect => {
            if disconnected {
                Expect::Sent
            } else {
                Expect::Forbidden
            }
        }
        Kind::Connack => {
            if connecting {
                Expect::Sent
            } else {
                Expect::Forbidden
            }
        }
        Kind::Auth => {
            if connecting || connected {
                Expect::Sent
            } else {
                Expect::Forbidden
            }
        }
        Kind::Publish1 | Kind::Publish2 | Kind::Pubrel => {
            if connected {
                Expect::Sent
            } else {
                // what makes the session kept at this point: the CONNECT of this/previous connection, or offline publishing
                let kept = (cell.persistent && cell.stage != Stage::Fresh && !session_ended_by_server(cell)) || cell.offline;
                if kept {
                    Expect::NotTransmitted
                } else {
                    Expect::Forbidden
                }
            }
        }
        _ => {
            if connected {
                Expect::Sent
            } else {
                Expect::Forbidden
            }
        }
    }
}

fn cell_sig(cell: &Cell) -> String {
    format!("{:?}/{:?}/{:?}{}/{:?}/{}", cell.role, cell.ctor, cell.stage, if cell.stage == Stage::Fresh { "" } else if cell.as_client { "(as client)" } else { "(as server)" }, cell.kind, cell.pv.name())
}

pub fn test_cell(cell: &Cell, st: &mut Stats) -> R {
    if cell.stage == Stage::Refused && cell.kind == Kind::Connect {
        // a new CONNECT before the end of the refused transport was reported is application misuse
        return Ok(());
    }
    let cfg = ConnCfg { role: cell.role, ver: cell.ctor, idw: 2 };
    let mut c = new_conn(cfg);
    let sig = cell_sig(cell);
    prepare(c.as_mut(), cell).map_err(|e| fail("C11.not_sent_when_allowed", format!("{sig}/prepare"), format!("could not bring the connection into the cell's state: {e}")))?;
    // the application acquires the id of its own exchange beforehand
    let id = if own_id(cell.kind) {
        match c.acquire() {
            Ok(Ok(id)) => id,
            other => return Err(fail("C11.not_sent_when_allowed", format!("{sig}/acquire"), format!("{other:?}"))),
        }
    } else {
        1
    };
    let Some(ap) = packet(cell.kind, cell.pv, id, cell.variant) else { return Ok(()) };
    let before = c.state();
    let stored_before = c.stored().len();
    let events = match c.send(&ap) {
        Err(e) => return Err(fail("C11.not_sent_when_allowed", format!("{sig}/build"), e)),
        Ok(Err(p)) => return Err(fail("C11.refusal_changed_state(panic)", sig, p)),
        Ok(Ok(e)) => normalise(e),
    };
    let after = c.state();
    let sent: Vec<&AP> = events.iter().filter_map(|e| if let NEvent::Send { ap, .. } = e { Some(ap) } else { None }).collect();
    let errors = events.iter().filter(|e| matches!(e, NEvent::Error(_))).count();
    let released: Vec<u32> = events.iter().filter_map(|e| if let NEvent::Released(x) = e { Some(*x) } else { None }).collect();
    let exp = expectation(cell);
    let flags = format!("persistent={} offline={}", cell.persistent, cell.offline);
    let refused_cleanly = |what: &str| -> R {
        if errors == 0 {
            return Err(fail("C11.refusal_no_error", &sig, format!("[{flags}] {what}: no error event: {}", brief_list(&events))));
        }
        let should_release = initiates(cell.kind);
        if should_release && !released.contains(&id) {
            return Err(fail("C11.refusal_id_not_released", &sig, format!("[{flags}] {what}: the acquired identifier {id} was not released: {}", brief_list(&events))));
        }
        if !should_release && !released.is_empty() {
            return Err(fail("C11.refusal_changed_state(pid_free)", &sig, format!("[{flags}] {what}: identifiers {released:?} were released although the packet does not initiate an exchange")));
        }
        let ignore: Vec<&str> = if should_release { vec!["pid_free"] } else { vec![] };
        let diff = state_diff(&before, &after, &ignore);
        if !diff.is_empty() {
            let field = diff[0].split(':').next().unwrap_or("?").to_string();
            return Err(fail(&format!("C11.refusal_changed_state({field})"), &sig, format!("[{flags}] {what}: the refused call changed the connection: {diff:?}")));
        }
        if should_release {
            // the id must be free again: state before acquiring
            let free_after = after.iter().find(|(k, _)| k == "pid_free").map(|(_, v)| v.clone()).unwrap_or_default();
            if free_after.contains(&format!("({id},")) == false && !free_after.starts_with(&format!("[(1,")) {
                // (the in-use set is checked exactly by C08; here only that the id is not left dangling)
            }
        }
        Ok(())
    };
    match exp {
        Expect::Forbidden => {
            if !sent.is_empty() {
                return Err(fail("C11.sent_when_forbidden", &sig, format!("[{flags}] MQTT does not allow this packet here, yet it was passed to the transport: {}", brief_list(&events))));
            }
            refused_cleanly("forbidden send")?;
            st.class("forbidden");
        }
        Expect::Sent => {
            let carries = sent.iter().any(|s| **s == ap);
            if !carries || errors > 0 {
                return Err(fail("C11.not_sent_when_allowed", &sig, format!("[{flags}] MQTT allows this packet here but the result is {} (expected a RequestSendPacket carrying exactly {})", brief_list(&events), ap.brief())));
            }
            st.class("sent");
        }
        Expect::NotTransmitted => {
            if !sent.is_empty() {
                return Err(fail("C11.sent_when_forbidden", format!("{sig}/not_connected"), format!("[{flags}] the connection is not established, yet the packet was passed to the transport: {}", brief_list(&events))));
            }
            if errors > 0 {
                refused_cleanly("refused while not connected")?;
                st.class("not_connected_refused");
            } else {
                // accepted without transmission: it must be kept for the next connection
                if c.stored().len() != stored_before + 1 {
                    return Err(fail("C11.refusal_no_error", format!("{sig}/silent"), format!("[{flags}] accepted without error while not connected, but nothing was stored ({} -> {} stored packets)", stored_before, c.stored().len())));
                }
                st.class("not_connected_stored");
            }
        }
    }
    st.nontrivial(&format!("{cell:?}"));
    if cell.variant == 0 && st.want_sample() && cell.kind == Kind::Publish1 {
        st.sample(|| json!({"cell": sig, "flags": flags, "expected": format!("{exp:?}"), "events": brief_list(&events)}));
    }
    Ok(())
}

// ------------------------------------------------------------------------------------------ compile-time clause

struct W<T, R>(PhantomData<(T, R)>);

trait Fallback<T, R: RoleType> {
    const OK: bool = false;
    fn run(&self, _c: &mut GenericConnection<R, u16>, _p: T) -> Option<Vec<NEvent>> {
        None
    }
}
impl<T, R: RoleType> Fallback<T, R> for W<T, R> {}

impl<T: Sendable<R, u16>, R: RoleType> W<T, R> {
    #[allow(dead_code)]
    const OK: bool = true;
    #[allow(dead_code)]
    fn run(&self, c: &mut GenericConnection<R, u16>, p: T) -> Option<Vec<NEvent>> {
        Some(c.checked_send(p).iter().map(ev_from_lib).collect())
    }
}

fn raw_prepare<R: RoleType>(c: &mut GenericConnection<R, u16>, v: V, as_client: bool, connected: bool) {
    if !connected {
        return;
    }
    let connect = connect_for(v, false);
    let connack = connack_ap(v, &ConnackArgs { sp: false, fail: 0, p: HsProps::default() });
    if as_client {
        let _ = c.send(adapt::to_lib::<u16>(&connect).unwrap());
        let b = refcodec::encode(&connack, 2);
        let _ = c.recv(&mut mqtt::common::Cursor::new(&b[..]));
    } else {
        let b = refcodec::encode(&connect, 2);
        let _ = c.recv(&mut mqtt::common::Cursor::new(&b[..]));
        let _ = c.send(adapt::to_lib::<u16>(&connack).unwrap());
    }
}

fn raw_state<R: RoleType>(c: &GenericConnection<R, u16>) -> Vec<(String, String)> {
    c.verif_state().into_iter().map(|(k, v)| (k.to_string(), v)).collect()
}

/// One (type, role) cell of the static table and the checked_send == send equivalence.
fn static_cell<T, Ro>(
    ok: bool,
    run: &dyn Fn(&mut GenericConnection<Ro, u16>, T) -> Option<Vec<NEvent>>,
    name: &str,
    role: Role,
    k: Kind,
    pv: V,
    extract: fn(GenericPacket<u16>) -> Option<T>,
    st: &mut Stats,
) -> R
where
    T: Clone,
    Ro: RoleType,
{
    st.eval();
    let want = role_may_send(role, k, pv);
    if ok != want {
        return Err(fail(
            "C11.static_ne_dynamic",
            format!("{role:?}/{name}"),
            format!("checked_send on a {role:?} connection {} {name} at compile time, but MQTT {} that role to send it", if ok { "accepts" } else { "rejects" }, if want { "allows" } else { "does not allow" }),
        ));
    }
    st.nontrivial(&(format!("{role:?}"), name));
    if !ok {
        return Ok(());
    }
    // checked_send(p) must behave exactly like send(p.into()) in every status reachable for the role
    let sides: Vec<bool> = match role {
        Role::Client => vec![true],
        Role::Server => vec![false],
        Role::Any => vec![true, false],
    };
    for connected in [false, true] {
        for &as_client in &sides {
            let lv = lib_version(CVer::of(pv));
            let mut a = GenericConnection::<Ro, u16>::new(lv);
            let mut b = GenericConnection::<Ro, u16>::new(lv);
            raw_prepare(&mut a, pv, as_client, connected);
            raw_prepare(&mut b, pv, as_client, connected);
            let id = if own_id(k) {
                let x = a.acquire_packet_id().unwrap();
                let y = b.acquire_packet_id().unwrap();
                assert_eq!(x, y);
                x as u32
            } else {
                1
            };
            let Some(ap) = packet(k, pv, id, 0) else { continue };
            let gp = adapt::to_lib::<u16>(&ap).map_err(|e| fail("C11.checked_send_ne_send", format!("{role:?}/{name}/build"), e))?;
            let Some(concrete) = extract(gp.clone()) else { continue };
            st.eval();
            let ea = crate::util::catch(|| run(&mut a, concrete.clone())).map_err(|p| fail("C11.checked_send_ne_send", format!("{role:?}/{name}/panic"), p))?;
            let eb: Vec<NEvent> = crate::util::catch(|| b.send(gp).iter().map(ev_from_lib).collect()).map_err(|p| fail("C11.checked_send_ne_send", format!("{role:?}/{name}/panic"), p))?;
            let ea = ea.expect("probe said Sendable");
            if normalise(ea.clone()) != normalise(eb.clone()) || raw_state(&a) != raw_state(&b) {
                return Err(fail(
                    "C11.checked_send_ne_send",
                    format!("{role:?}/{name}/{}", if connected { "connected" } else { "disconnected" }),
                    format!("checked_send gave {} and state diff {:?}; send gave {}", brief_list(&ea), state_diff(&raw_state(&a), &raw_state(&b), &[]), brief_list(&eb)),
                ));
            }
            st.nontrivial(&(format!("{role:?}"), name, connected, as_client));
        }
    }
    Ok(())
}

macro_rules! ex {
    ($var:ident) => {
        |g: GenericPacket<u16>| if let GenericPacket::$var(x) = g { Some(x) } else { None }
    };
}

pub fn static_table(st: &mut Stats) -> R {
    // the probe must be evaluated where the types are concrete (macro expansion, not a generic function):
    // the inherent const / method of W<T, R> exists only when T: Sendable<R, u16>, otherwise the trait default is used
    macro_rules! one {
        ($t:ty, $r:ty, $role:expr, $name:expr, $k:expr, $pv:expr, $var:ident) => {{
            #[allow(unused_imports)]
            use Fallback as _;
            let ok: bool = <W<$t, $r>>::OK;
            let run = |c: &mut GenericConnection<$r, u16>, p: $t| -> Option<Vec<NEvent>> { W::<$t, $r>(PhantomData).run(c, p) };
            static_cell::<$t, $r>(ok, &run, $name, $role, $k, $pv, ex!($var), st)?;
        }};
    }
    macro_rules! row {
        ($t:ty, $name:expr, $k:expr, $pv:expr, $var:ident) => {
            one!($t, role::Client, Role::Client, $name, $k, $pv, $var);
            one!($t, role::Server, Role::Server, $name, $k, $pv, $var);
            one!($t, role::Any, Role::Any, $name, $k, $pv, $var);
        };
    }
    use Kind::*;
    row!(v3::Connect, "v3_1_1::Connect", Connect, V::V311, V3_1_1Connect);
    row!(v3::Connack, "v3_1_1::Connack", Connack, V::V311, V3_1_1Connack);
    row!(v3::Publish, "v3_1_1::Publish", Publish1, V::V311, V3_1_1Publish);
    row!(v3::Puback, "v3_1_1::Puback", Puback, V::V311, V3_1_1Puback);
    row!(v3::Pubrec, "v3_1_1::Pubrec", Pubrec, V::V311, V3_1_1Pubrec);
    row!(v3::Pubrel, "v3_1_1::Pubrel", Pubrel, V::V311, V3_1_1Pubrel);
    row!(v3::Pubcomp, "v3_1_1::Pubcomp", Pubcomp, V::V311, V3_1_1Pubcomp);
    row!(v3::Subscribe, "v3_1_1::Subscribe", Subscribe, V::V311, V3_1_1Subscribe);
    row!(v3::Suback, "v3_1_1::Suback", Suback, V::V311, V3_1_1Suback);
    row!(v3::Unsubscribe, "v3_1_1::Unsubscribe", Unsubscribe, V::V311, V3_1_1Unsubscribe);
    row!(v3::Unsuback, "v3_1_1::Unsuback", Unsuback, V::V311, V3_1_1Unsuback);
    row!(v3::Pingreq, "v3_1_1::Pingreq", Pingreq, V::V311, V3_1_1Pingreq);
    row!(v3::Pingresp, "v3_1_1::Pingresp", Pingresp, V::V311, V3_1_1Pingresp);
    row!(v3::Disconnect, "v3_1_1::Disconnect", Disconnect, V::V311, V3_1_1Disconnect);
    row!(v5::Connect, "v5_0::Connect", Connect, V::V5, V5_0Connect);
    row!(v5::Connack, "v5_0::Connack", Connack, V::V5, V5_0Connack);
    row!(v5::Publish, "v5_0::Publish", Publish1, V::V5, V5_0Publish);
    row!(v5::Puback, "v5_0::Puback", Puback, V::V5, V5_0Puback);
    row!(v5::Pubrec, "v5_0::Pubrec", Pubrec, V::V5, V5_0Pubrec);
    row!(v5::Pubrel, "v5_0::Pubrel", Pubrel, V::V5, V5_0Pubrel);
    row!(v5::Pubcomp, "v5_0::Pubcomp", Pubcomp, V::V5, V5_0Pubcomp);
    row!(v5::Subscribe, "v5_0::Subscribe", Subscribe, V::V5, V5_0Subscribe);
    row!(v5::Suback, "v5_0::Suback", Suback, V::V5, V5_0Suback);
    row!(v5::Unsubscribe, "v5_0::Unsubscribe", Unsubscribe, V::V5, V5_0Unsubscribe);
    row!(v5::Unsuback, "v5_0::Unsuback", Unsuback, V::V5, V5_0Unsuback);
    row!(v5::Pingreq, "v5_0::Pingreq", Pingreq, V::V5, V5_0Pingreq);
    row!(v5::Pingresp, "v5_0::Pingresp", Pingresp, V::V5, V5_0Pingresp);
    row!(v5::Disconnect, "v5_0::Disconnect", Disconnect, V::V5, V5_0Disconnect);
    row!(v5::Auth, "v5_0::Auth", Auth, V::V5, V5_0Auth);
    Ok(())
}

pub fn run(ctx: &Ctx) -> Report {
    let mut rep = Report::new(
        "the complete matrix {Client,Server,Any} x constructor version {3.1.1,5.0,undetermined} x state {fresh, after close, connecting, connected; Any as client and as server} x {persistent} x {offline publishing} \
         x 17 send kinds (PUBLISH per QoS) x both packet versions x 2 content variants, ids acquired beforehand; oracle = role/version/state table transcribed from MQTT and the statement; \
         plus the 87-cell compile-time Sendable table (inherent-const probe) against the same role table and checked_send == send. Every cell is a distinct decision (non-trivial)",
    );
    let cells = all_cells();
    let (st, v) = enumerate(ctx, "c11.matrix", &cells, test_cell);
    rep.absorb("matrix", st, v, true);
    let mut st = Stats::default();
    let r = static_table(&mut st);
    let v = r.err().map(|f| Violation { check: "c11.static".into(), fail: f, case: serde_json::Value::Null, seed: ctx.seed });
    rep.absorb("static_sendable_table", st, v, true);
    rep.exhaustive = true;
    rep.assumptions.push("a refused send releases the id only for exchange-initiating packets (PUBLISH QoS>0, SUBSCRIBE, UNSUBSCRIBE)".into());
    rep.assumptions.push("QoS>0 PUBLISH / PUBREL while not connected with a kept session or offline publishing: never transmitted; either refused cleanly or accepted and stored (weaker reading)".into());
    rep
}

pub fn replay(check: &str, case: &serde_json::Value) -> Option<R> {
    let mut st = Stats::default();
    match check {
        "c11.matrix" => {
            let c: Cell = serde_json::from_value(case.clone()).ok()?;
            Some(test_cell(&c, &mut st))
        }
        "c11.static" => Some(static_table(&mut st)),
        _ => None,
    }
}
