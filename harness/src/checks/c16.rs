//! C16 — session state exported at any point and restored resumes the session.

use crate::ap::*;
use crate::conn::*;
use crate::engine::*;
use crate::hist::*;
use crate::scn::*;
use proptest::prelude::*;
use serde::{Deserialize, Serialize};
use serde_json::json;
use std::collections::BTreeSet;

#[derive(Clone, Debug, Serialize, Deserialize)]
pub struct CrashCase {
    pub h: History,
    /// suffix run after the resume (ops after the handshake)
    pub suffix: Vec<Op>,
    /// properties of the resuming handshake
    pub rm: Option<u16>,
    /// restrict to one crash point (replay / shrinking); None = every prefix
    pub only_prefix: Option<usize>,
    /// malformed-export variant: (source entry, insert offset, mode) - entries with an id that is already present are
    /// inserted after the original; mode 0 = exact copy, 1 = other QoS / other kind with the same id
    #[serde(default)]
    pub pollute: Vec<(u16, u16, u8)>,
    /// the first connection attempt after the restore is refused (failing CONNACK, transport closed) before the resume
    #[serde(default)]
    pub refused_first: bool,
    /// v5.0: the peer announces at the resuming handshake a Maximum Packet Size of (largest exported packet + this), i.e.
    /// every exported packet still fits - exactly, or with one byte to spare - and must be retransmitted
    #[serde(default)]
    pub mps_fit: Option<u8>,
}

pub fn profile() -> Profile {
    let mut p = Profile::general();
    p.publish = 14;
    p.peer_publish = 10;
    p.peer_ack = 10;
    p.ack = 6;
    p.sub = 1;
    p.ids = 0;
    p.erase = 1;
    p.timers = 0;
    p.opts = 1;
    p.ping = 0;
    p.auth = 0;
    p.chunk = 0;
    p.rehandshake = 0;
    p.offline_ops = 0;
    p.hs_failures = false;
    p.max_alias = 0;
    p.alias_use = false;
    p.max_segments = 2;
    p.max_body = 18;
    p
}

fn suffix_op() -> BoxedStrategy<Op> {
    prop_oneof![
        6 => (proptest::sample::select(ALL_ACKS.to_vec()), sel_live(), Just(0u8)).prop_map(|(kind, sel, rc)| Op::PeerAck { kind, sel, rc }),
        3 => (1u8..=2, any::<u16>(), any::<bool>(), 0u8..4, 0u8..3).prop_map(|(qos, k, dup, topic, plen)| Op::PeerPublish { qos, id: Sel::Live(k), dup, topic, alias: AliasMode::None, plen }),
        3 => (0u8..=2, 0u8..4, 0u8..3).prop_map(|(qos, topic, plen)| Op::Publish { qos, topic, alias: AliasMode::None, plen, retain: false, id: IdSrc::Acquire }),
        2 => (proptest::sample::select(ALL_ACKS.to_vec()), sel_live(), Just(0u8)).prop_map(|(kind, sel, rc)| Op::Ack { kind, sel, rc }),
        1 => Just(Op::AcquireId),
    ]
    .boxed()
}

pub fn strategy() -> BoxedStrategy<CrashCase> {
    let cfgs = (proptest::sample::select(vec![Role::Client, Role::Server, Role::Any]), proptest::sample::select(vec![CVer::V311, CVer::V5]), prop_oneof![4 => Just(2usize), 1 => Just(4usize)])
        .prop_map(|(role, ver, idw)| ConnCfg { role, ver, idw });
    cfgs.prop_flat_map(|cfg| (history_for(profile(), cfg, no_hostile()), proptest::collection::vec(suffix_op(), 0..14), proptest::option::of(1u16..4), prop_oneof![2 => Just(vec![]), 1 => proptest::collection::vec((any::<u16>(), any::<u16>(), 0u8..2), 1..4)], prop_oneof![3 => Just(false), 1 => Just(true)], prop_oneof![2 => Just(None), 2 => Just(Some(0u8)), 1 => Just(Some(1u8))]))
        .prop_map(|(mut h, suffix, rm, pollute, refused_first, mps_fit)| {
            // persistent sessions only: every handshake of the history asks for a kept session
            for op in h.ops.iter_mut() {
                match op {
                    Op::Connect(a) | Op::PeerConnect(a) => {
                        a.clean = false;
                        a.p.sei = Some(300);
                    }
                    Op::PeerConnack(a) | Op::Connack(a) => {
                        a.p.sei = None;
                    }
                    _ => {}
                }
            }
            CrashCase { h, suffix, rm, only_prefix: None, pollute, refused_first, mps_fit }
        })
        .boxed()
}

fn resume_ops(as_client: bool, v5: bool, rm: Option<u16>, mps: Option<u32>) -> Vec<Op> {
    let ca = ConnectArgs { clean: false, keep_alive: 0, p: HsProps { sei: if v5 { Some(300) } else { None }, rm: if !as_client { rm } else { None }, mps: if !as_client { mps } else { None }, ..Default::default() } };
    let ka = ConnackArgs { sp: true, fail: 0, p: HsProps { rm: if as_client { rm } else { None }, mps: if as_client { mps } else { None }, ..Default::default() } };
    if as_client {
        vec![Op::Connect(ca), Op::PeerConnack(ka)]
    } else {
        vec![Op::PeerConnect(ca), Op::Connack(ka)]
    }
}

fn step_sig(s: &Step) -> String {
    match &s.call {
        Call::Send(ap) => format!("send/{}", ap.kind_name()),
        Call::Recv { ap: Some(ap), .. } => format!("recv/{}", ap.kind_name()),
        Call::Acquire(_) => "acquire".into(),
        Call::Closed => "notify_closed".into(),
        _ => "other".into(),
    }
}

/// one crash point
fn crash_at(c: &CrashCase, k: usize, st: &mut Stats) -> R {
    let cfg = c.h.cfg;
    // ---- the original runs the prefix
    let mut x = World::new(cfg);
    for op in &c.h.ops[..k] {
        x.exec(op);
        if x.dead {
            st.aborted_by_panic += 1;
            return Ok(());
        }
    }
    let v = x.v();
    let v5 = v == V::V5;
    let as_client = x.t.as_client;
    if cfg.role == Role::Server && x.t.conn_seq == 0 {
        // nothing happened yet; a server acts as server
    }
    // ---- export at the crash point
    let stored = x.c.stored();
    let handled = x.c.qos2_handled();
    let exported_ids: BTreeSet<u32> = stored.iter().filter_map(|a| a.packet_id()).collect();
    st.class(if stored.is_empty() && handled.is_empty() { "empty_export" } else { "non_empty_export" });
    // exchanges the export cannot carry: between PUBREC and PUBREL, or awaited without being stored
    let in_flight: BTreeSet<u32> = x.app.out_q1.iter().chain(&x.app.out_q2_rec).chain(&x.app.out_q2_rel).chain(&x.app.out_q2_comp).cloned().collect();
    let exportable = in_flight == exported_ids;
    // the export carries accepted-but-not-completed messages only: an exchange the application saw complete (acknowledged,
    // refused with an error PUBREC, erased) must not come back after a restore
    if let Some(id) = exported_ids.difference(&in_flight).next() {
        let e = stored.iter().find(|a| a.packet_id() == Some(*id)).map(|a| a.brief()).unwrap_or_default();
        return Err(fail("C16.completed_exchange_exported", format!("{}", x.v().name()), format!("the export contains {e} although no exchange with id {id} is in flight (in flight: {:?})", in_flight)));
    }
    // ---- the restored object
    let make = |export: &[AP], what: &str| -> Result<World, Fail> {
        let mut y = World::new(cfg);
        if let Err(p) = y.c.restore_packets(export) {
            return Err(fail("C16.panic_on_malformed", what, format!("restore_packets failed: {p}")));
        }
        y.c.restore_qos2_handled(&handled);
        // option setters are application configuration: re-applied on the new object
        for o in [Opt::AutoPub(x.t.auto_pub), Opt::AutoPing(x.t.auto_ping), Opt::AutoMap(x.t.auto_map), Opt::AutoReplace(x.t.auto_replace), Opt::Offline(x.t.offline), Opt::PingrespTimeout(x.t.pingresp_timeout), Opt::PingInterval(x.t.ping_override)] {
            y.exec(&Op::SetOpt(o));
        }
        // the application's knowledge of its exchanges survives with the export (ids, phases)
        y.app.out_q1 = x.app.out_q1.intersection(&exported_ids).cloned().collect();
        y.app.out_q2_rec = x.app.out_q2_rec.intersection(&exported_ids).cloned().collect();
        y.app.out_q2_comp = x.app.out_q2_comp.intersection(&exported_ids).cloned().collect();
        y.app.peer_ids_seen = x.app.peer_ids_seen.clone();
        y.app.tag = x.app.tag + 1000;
        y.t.v = Some(v);
        Ok(y)
    };
    let mut y = make(&stored, "restore_of_own_export")?;
    // ---- malformed variant: the same export with entries whose id is already present; they are skipped, so the object
    //      restored from it is indistinguishable from the one restored from the clean export
    let mut z: Option<World> = None;
    if !c.pollute.is_empty() && !stored.is_empty() {
        let mut polluted = stored.clone();
        for (src, off, mode) in &c.pollute {
            let e = stored[pick_idx(*src, stored.len())].clone();
            let id = e.packet_id().unwrap_or(0);
            let extra = match (mode, &e) {
                (0, _) => e.clone(),
                (_, AP::Publish { qos, .. }) if off % 2 == 0 => {
                    let mut a = e.clone();
                    if let AP::Publish { qos: q, .. } = &mut a {
                        *q = 3 - *qos;
                    }
                    a
                }
                (_, AP::Publish { .. }) => ack_ap(v, AckKind::Pubrel, id, 0),
                _ => publish_ap(v, 1 + (off % 2) as u8, true, false, 0, AliasMode::None, Some(id), vec![9]),
            };
            let first = polluted.iter().position(|a| a.packet_id() == Some(id)).unwrap_or(0);
            let at = first + 1 + pick_idx(*off, polluted.len() - first);
            polluted.insert(at.min(polluted.len()), extra);
        }
        let zz = make(&polluted, "restore_of_export_with_duplicates")?;
        let diff = state_diff(&y.c.state(), &zz.c.state(), &[]);
        if !diff.is_empty() {
            return Err(fail("C16.malformed_ne_clean", format!("{}/state_after_restore", v.name()), format!("restoring {} instead of the clean export {} leaves a different object: {diff:?}", polluted.iter().map(|a| a.brief()).collect::<Vec<_>>().join(", "), stored.iter().map(|a| a.brief()).collect::<Vec<_>>().join(", "))));
        }
        st.class("malformed_variant");
        z = Some(zz);
    }
    // ---- restored ids are in use
    let free = y.c.free_ids();
    for id in &exported_ids {
        if free.iter().any(|(l, h)| *l <= *id as u64 && *id as u64 <= *h) {
            return Err(fail("C16.id_reacquirable", "free_after_restore", format!("packet id {id} of a restored packet is free after restore_packets")));
        }
        if let Ok(Ok(())) = y.c.register(*id) {
            return Err(fail("C16.id_reacquirable", "register_succeeds", format!("register_packet_id({id}) succeeded although a restored packet owns the id")));
        }
    }
    // ---- reconnect with the session present
    let mps: Option<u32> = match (v5, c.mps_fit, stored.iter().map(|a| crate::refcodec::encode(a, cfg.idw).len()).max()) {
        (true, Some(d), Some(largest)) => {
            st.class("resume_limit_at_largest_exported_packet");
            Some((largest + d as usize) as u32)
        }
        _ => None,
    };
    let mut hs = resume_ops(if cfg.role == Role::Any { as_client || x.t.conn_seq == 0 } else { cfg.role == Role::Client }, v5, c.rm, mps);
    let y_as_client = matches!(hs[0], Op::Connect(_));
    if c.refused_first {
        // a refused attempt (the server answers with a failing CONNACK, the transport is closed) does not touch the session
        let refusal = ConnackArgs { sp: false, fail: 3, p: HsProps::default() };
        let mut pre = vec![hs[0].clone(), if y_as_client { Op::PeerConnack(refusal) } else { Op::Connack(refusal) }, Op::Closed];
        pre.extend(hs);
        hs = pre;
        st.class("refused_attempt_before_resume");
    }
    for op in &hs {
        y.exec(op);
        check_wire("C16", y.steps.last().unwrap(), cfg.idw)?;
        if let Some(zw) = z.as_mut() {
            zw.exec(op);
            let (sy, sz) = (y.steps.last().unwrap(), zw.steps.last().unwrap());
            if sy.events != sz.events || sz.panic.is_some() {
                return Err(fail("C16.malformed_ne_clean", format!("{}/handshake", v.name()), format!("the object restored from the export with duplicates diverges at the handshake:\n  clean    : {}\n  malformed: {}", sy.brief(), sz.brief())));
            }
        }
    }
    if y.dead {
        return Err(fail("C16.panic_on_malformed", "resume_panicked", y.steps.last().and_then(|s| s.panic.clone()).unwrap_or_default()));
    }
    let hs_step = y.steps.last().unwrap().clone();
    let resent: Vec<AP> = hs_step.sends().into_iter().filter(|a| !matches!(a, AP::Connack { .. })).cloned().collect();
    if y.t.status != St::Connected {
        return Ok(());
    }
    if resent != stored {
        return Err(fail(
            "C16.not_retransmitted",
            format!("{}/{}", v.name(), if y_as_client { "client" } else { "server" }),
            format!("exported store {} but after restore + CONNACK(session present) the packets re-sent are {}", stored.iter().map(|a| a.brief()).collect::<Vec<_>>().join(", "), resent.iter().map(|a| a.brief()).collect::<Vec<_>>().join(", ")),
        ));
    }
    // ---- the original, had it survived: closed and resumed the same way
    let mut xs: Option<World> = None;
    if exportable && x.app.held.is_empty() {
        x.exec(&Op::Closed);
        x.app.tag = y.app.tag - 1; // same payload tags from here on
        y.app.tag = x.app.tag;
        if let Some(zw) = z.as_mut() {
            zw.app.tag = y.app.tag;
        }
        for op in &hs {
            x.exec(op);
        }
        if !x.dead && x.t.status == St::Connected {
            let xh = x.steps.last().unwrap();
            if xh.events != hs_step.events {
                return Err(fail("C16.trace_ne_original", format!("{}/handshake", v.name()), format!("the resumed original and the restored object differ at the handshake:\n  original: {}\n  restored: {}", xh.brief(), hs_step.brief())));
            }
            xs = Some(x);
        }
    } else {
        st.class("differential_excluded_not_exportable");
    }
    // ---- suffix
    let mut acked_restored = 0;
    let mut still_handled: BTreeSet<u32> = handled.iter().cloned().collect();
    for op in &c.suffix {
        y.exec(op);
        let sy = y.steps.last().unwrap().clone();
        check_wire("C16", &sy, cfg.idw)?;
        if sy.panic.is_some() {
            st.aborted_by_panic += 1;
            return Ok(());
        }
        // acknowledgements of restored exchanges are accepted and release the id
        if let Call::Recv { ap: Some(AP::Ack { kind, pid, rc, .. }), .. } = &sy.call {
            let completes = match kind {
                AckKind::Puback => stored.iter().any(|a| matches!(a, AP::Publish { qos: 1, pid: Some(x), .. } if x == pid)),
                AckKind::Pubcomp => stored.iter().any(|a| matches!(a, AP::Ack { kind: AckKind::Pubrel, pid: x, .. } if x == pid)),
                _ => false,
            };
            let first_time = y.steps.iter().filter(|s| matches!(&s.call, Call::Recv { ap: Some(AP::Ack { kind: k2, pid: p2, .. }), .. } if k2 == kind && p2 == pid)).count() == 1;
            let _ = rc;
            if completes && first_time && y.t.close_requested == false {
                acked_restored += 1;
                if sy.has_error() || !sy.released().contains(pid) {
                    return Err(fail("C16.ack_rejected", format!("{}/{}", v.name(), kind.name()), format!("{} for restored id {pid} was not accepted with a release: {}", kind.name(), sy.brief())));
                }
            }
        }
        // duplicates of QoS2 messages notified before the crash stay suppressed
        if let Call::Recv { ap: Some(AP::Publish { qos: 2, pid: Some(id), .. }), .. } = &sy.call {
            if still_handled.contains(id) && !sy.has_error() && sy.recvs().iter().any(|a| matches!(a, AP::Publish { .. })) {
                return Err(fail("C16.q2_dup_notified", v.name(), format!("QoS2 PUBLISH id {id} was notified before the crash (exported as handled) but was notified again after restore")));
            }
        }
        // the exported handled set, carried forward by what happens after the resume (independent of the object's own set):
        // a received PUBREL or an error PUBREC sent by the application ends the exchange, the next PUBLISH with that id is new
        match &sy.call {
            Call::Recv { ap: Some(AP::Ack { kind: AckKind::Pubrel, pid, .. }), .. } => {
                still_handled.remove(pid);
            }
            Call::Send(AP::Ack { kind: AckKind::Pubrec, pid, rc: Some(rc), .. }) if *rc >= 0x80 => {
                still_handled.remove(pid);
            }
            _ => {}
        }
        if sy.has_error() && sy.sends().iter().any(|a| matches!(a, AP::Disconnect { .. })) || y.t.close_requested {
            // the connection is going down: nothing more is decided by this rule
            still_handled.clear();
        }
        if let Some(zw) = z.as_mut() {
            zw.exec(op);
            let sz = zw.steps.last().unwrap();
            if sy.events != sz.events || sz.panic.is_some() {
                return Err(fail("C16.malformed_ne_clean", format!("{}/{}", v.name(), step_sig(&sy)), format!("the object restored from the export with duplicates diverges:\n  clean    : {}\n  malformed: {}", sy.brief(), sz.brief())));
            }
        }
        if let Some(x) = xs.as_mut() {
            x.exec(op);
            let sx = x.steps.last().unwrap().clone();
            if sx.panic.is_some() {
                xs = None;
                continue;
            }
            if sx.call != sy.call || sx.events != sy.events {
                return Err(fail(
                    "C16.trace_ne_original",
                    format!("{}/{}", v.name(), step_sig(&sy)),
                    format!("after the resume the original object and the restored object diverge:\n  original: {}\n  restored: {}", sx.brief(), sy.brief()),
                ));
            }
        }
    }
    if !stored.is_empty() && acked_restored > 0 {
        st.nontrivial(&(cfg, k, &c.h.ops[..k], &c.suffix));
        st.class("restored_id_acknowledged");
        st.sample(|| json!({"cfg": cfg_sig(&cfg), "crash_point": k, "exported_packets": stored.iter().map(|a| a.brief()).collect::<Vec<_>>(), "handled": handled, "suffix_ops": c.suffix.len(), "restored_ids_acknowledged": acked_restored, "differential": xs.is_some()}));
    }
    Ok(())
}

pub fn test(c: &CrashCase, st: &mut Stats) -> R {
    let n = c.h.ops.len();
    let points: Vec<usize> = match c.only_prefix {
        Some(k) => vec![k.min(n)],
        None => (0..=n).collect(),
    };
    // one evaluation per crash point (the engine counted one for the history itself)
    st.evaluations += (points.len() as u64).saturating_sub(1);
    for k in points {
        st.count("crash_points", 1);
        if let Err(mut f) = crash_at(c, k, st) {
            f.detail = format!("crash point after op #{k}: {}", f.detail);
            return Err(f);
        }
    }
    Ok(())
}

/// malformed exports must not panic and must not corrupt the id bookkeeping
fn malformed(st: &mut Stats) -> R {
    let pubs = |v: V, id: u32, qos: u8| publish_ap(v, qos, true, false, 0, AliasMode::None, Some(id), vec![1]);
    for role in [Role::Client, Role::Server, Role::Any] {
        for v in [V::V311, V::V5] {
            let other = if v == V::V5 { V::V311 } else { V::V5 };
            let exports: Vec<(&str, Vec<AP>)> = vec![
                ("duplicate_ids", vec![pubs(v, 1, 1), pubs(v, 1, 2)]),
                ("publish_and_pubrel_same_id", vec![pubs(v, 2, 2), ack_ap(v, AckKind::Pubrel, 2, 0)]),
                ("other_version_entries", vec![pubs(other, 3, 1), ack_ap(other, AckKind::Pubrel, 4, 0)]),
                ("many", (1..40).map(|i| pubs(v, i, 1 + (i % 2) as u8)).collect()),
            ];
            for (name, ex) in exports {
                st.eval();
                let cfg = ConnCfg { role, ver: CVer::of(v), idw: 2 };
                let mut w = World::new(cfg);
                if let Err(p) = w.c.restore_packets(&ex) {
                    if p.contains('@') {
                        return Err(fail("C16.panic_on_malformed", name, format!("restore_packets panicked: {p}")));
                    }
                }
                // every stored id is held, and ids of skipped entries are not leaked into use without a stored packet...
                let stored_ids: BTreeSet<u32> = w.c.stored().iter().filter_map(|a| a.packet_id()).collect();
                let free = w.c.free_ids();
                for id in &stored_ids {
                    if free.iter().any(|(l, h)| *l <= *id as u64 && *id as u64 <= *h) {
                        return Err(fail("C16.id_reacquirable", format!("malformed/{name}"), format!("stored id {id} is free after restoring a malformed export")));
                    }
                }
                // the object still works: handshake and one publish
                let as_client = role != Role::Server;
                for op in resume_ops(as_client, v == V::V5, None, None) {
                    w.exec(&op);
                }
                w.exec(&Op::Publish { qos: 1, topic: 0, alias: AliasMode::None, plen: 0, retain: false, id: IdSrc::Acquire });
                if w.dead {
                    return Err(fail("C16.panic_on_malformed", name, w.steps.last().and_then(|s| s.panic.clone()).unwrap_or_default()));
                }
                st.nontrivial(&(format!("{role:?}"), v, name));
            }
        }
    }
    Ok(())
}

pub fn run(ctx: &Ctx) -> Report {
    let mut rep = Report::new(
        "persistent-session histories (publishes QoS0/1/2, peer publishes incl. QoS2, acknowledgements, erasures, reconnects); EVERY prefix of every history is a crash point: export (stored packets, QoS2 handled ids) -> fresh object -> restore -> reconnect with session present -> suffix \
         (acknowledgements for restored ids by index, QoS2 duplicates, new publishes, Receive Maximum in the CONNACK). Oracle: retransmission == export, restored ids in use, their acks accepted with release, pre-crash QoS2 duplicates suppressed, \
         and the suffix trace equals that of the original object closed and resumed the same way. non-trivial = crash point with non-empty export whose suffix acknowledges a restored id; distinct by (prefix, suffix)",
    );
    let n = ctx.tier.pick(80_000, 500_000);
    let (st, v) = search(ctx, "c16.crash", n, strategy, test);
    rep.absorb("crash_points", st, v, false);
    let mut st = Stats::default();
    let r = malformed(&mut st);
    let v = r.err().map(|f| Violation { check: "c16.malformed".into(), fail: f, case: serde_json::Value::Null, seed: ctx.seed });
    rep.absorb("malformed_exports", st, v, true);
    rep.assumptions.push("the differential against the surviving original is skipped (and counted) when the crash point has exchanges the export cannot carry (between PUBREC and PUBREL, awaited without being stored) or unused ids held by the application".into());
    rep.assumptions.push("evaluations counts crash points (restores), several per generated history".into());
    rep
}

pub fn replay(check: &str, case: &serde_json::Value) -> Option<R> {
    let mut st = Stats::default();
    match check {
        "c16.crash" => {
            let c: CrashCase = serde_json::from_value(case.clone()).ok()?;
            Some(test(&c, &mut st))
        }
        "c16.malformed" => Some(malformed(&mut st)),
        _ => None,
    }
}
